----------------------------- MODULE SessionGen -----------------------------
(***************************************************************************)
(* TLC enumerates every session history of the reference model up to a     *)
(* bound: which documents are opened / changed, in which order, with which *)
(* text variant (include statement present or not, fault present or not),  *)
(* over every disk configuration of the listed ones.  Each reachable state *)
(* is one history; it leaves TLC as a JSON line and is replayed on the     *)
(* real server (C11, C12; also the message sequences for C08's schedules). *)
(***************************************************************************)
EXTENDS Server, Json

CONSTANTS MaxEvents,
          Next1          \* File -> File : the one file a text of f may include ("next" in a fixed ring)
VARIABLES hist           \* the events so far
gvars == <<svars, hist>>

Txt(f, k, inc, faulty, lay) == [k |-> k, inc |-> inc, faulty |-> faulty, lay |-> lay,
                                um |-> "U_" \o f \o "_" \o ToString(k), mm |-> "M_" \o f \o "_" \o ToString(k)]
\* the text variants of a document: includes its ring successor or nothing; faulty or clean
Variants(f, k) == {Txt(f, k, inc, fa, 0) : inc \in {<<>>, <<Next1[f]>>}, fa \in BOOLEAN}
\* disk configurations: every file is missing, or present in one of its variants (version 0)
DiskChoices(f) == {None} \cup Variants(f, 0)

GInit == /\ disk \in [File -> UNION {DiskChoices(f) : f \in File}]
         /\ \A f \in File : disk[f] \in DiskChoices(f)
         /\ open = [f \in File |-> None] /\ root = "" /\ published = [f \in File |-> NoPub] /\ pending = <<>>
         /\ hist = <<>>

\* the editor has closed f (didClose was the last thing it said about f): derived from the history, no extra state.  The server
\* keeps the buffer of a closed document (its didClose handler does nothing), so the model's state does not change; the editor,
\* for its part, sends nothing but didOpen for a closed document
LastEv(f) == LET idx == {i \in 1..Len(hist) : hist[i].file = f} IN
             IF idx = {} THEN "" ELSE hist[CHOOSE i \in idx : \A j \in idx : j <= i].ev
Closed(f) == LastEv(f) = "Close"
GClose == \E f \in File :
             /\ open[f] # None /\ ~Closed(f)
             /\ UNCHANGED svars /\ hist' = Append(hist, [ev |-> "Close", file |-> f, t |-> open[f]])
\* ... and opens it again later (other events may lie in between), with the text it had or a new one
GOpenClosed == \E f \in File : \E t \in {open[f]} \cup Variants(f, Len(hist) + 1) :
             /\ open[f] # None /\ Closed(f)
             /\ Open(f, t) /\ hist' = Append(hist, [ev |-> "Open", file |-> f, t |-> t])
GOpen   == \E f \in File : \E t \in Variants(f, Len(hist) + 1) :
             /\ open[f] = None
             /\ Open(f, t) /\ hist' = Append(hist, [ev |-> "Open", file |-> f, t |-> t])
GChange == \E f \in File : \E t \in Variants(f, Len(hist) + 1) :
             /\ ~Closed(f)
             /\ Change(f, t) /\ hist' = Append(hist, [ev |-> "Change", file |-> f, t |-> t])
\* the same text with the other layout: byte offsets and messages unchanged, line structure changed
GRelayout == \E f \in File :
             /\ open[f] # None /\ ~Closed(f)
             /\ \E l \in {0, 1, 2} \ {open[f].lay} :          \* 2: the same statements one line further down (every offset moves)
                LET t == [open[f] EXCEPT !.lay = l] IN
                Change(f, t) /\ hist' = Append(hist, [ev |-> "Change", file |-> f, t |-> t])
\* the editor closes a document and opens it again with the text it had (the server keeps the buffer of a closed document):
\* nothing changes but the root
GReopen == \E f \in File :
             /\ open[f] # None /\ ~Closed(f)
             /\ Open(f, open[f]) /\ hist' = Append(hist, [ev |-> "Reopen", file |-> f, t |-> open[f]])
\* the editor saves a document: nothing changes for the server (the buffer stays the source of truth, the disk of the model is
\* left alone: the editor's write may not have happened yet)
\* ... or with a text the editor has for it now (the file changed while it was closed)
GReopenNew == \E f \in File : \E t \in Variants(f, Len(hist) + 1) :
             /\ open[f] # None /\ ~Closed(f)
             /\ Open(f, t) /\ hist' = Append(hist, [ev |-> "Reopen", file |-> f, t |-> t])
GSave == \E f \in File :
             /\ open[f] # None /\ ~Closed(f)
             /\ UNCHANGED svars /\ hist' = Append(hist, [ev |-> "Save", file |-> f, t |-> open[f]])
GNext == Len(hist) < MaxEvents /\ (GOpen \/ GChange \/ GRelayout \/ GReopen \/ GReopenNew \/ GSave \/ GClose \/ GOpenClosed)
GSpec == GInit /\ [][GNext]_gvars

EmitSession == Len(hist) > 0 =>
   PrintT("@@" \o ToJson([disk |-> [f \in File |-> disk[f]], hist |-> hist,
                           reach |-> Reach, diag |-> [f \in File |-> Diag(f)]]))

Ring == [f \in File |-> IF f = "a" THEN "b" ELSE IF f = "b" THEN "c" ELSE "a"]

\* model-level sanity (vacuity guards): the interesting situations are reachable within the bound
SomeFileLeavesWorkspace == ~(\E f \in File : f \notin Reach /\ open[f] # None /\ open[f].faulty)
SomeOpenIncludedDiffersFromDisk == ~(\E f \in File : f \in Reach /\ f # root /\ open[f] # None /\ disk[f] # None)
=============================================================================
