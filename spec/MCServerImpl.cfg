SPECIFICATION Spec
CONSTANTS
  Msgs <- MsgsNRNR
  NFiles = 2
  Variant = "snapshot-copy"
VIEW view
INVARIANT VersionsMonotone
INVARIANT ConvergesAtQuiescence
INVARIANT SnapshotsAreCurrent
INVARIANT NoLockInversion
PROPERTY EveryRequestAnswered
