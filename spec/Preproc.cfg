SPECIFICATION Spec
CONSTANTS
  MaxLen = 6
  EmitAbove = 99
INVARIANT Refines
INVARIANT NamelessAgreed
INVARIANT Emit
CHECK_DEADLOCK FALSE
