------------------------------- MODULE Scope -------------------------------
(***************************************************************************)
(* Reference semantics of TableGen name resolution, and with it the        *)
(* expected outline, hover information and inlay hints (C05, C18, C19),    *)
(* as an interpreter/generator of abstract programs.                       *)
(*                                                                         *)
(* A program is a sequence of events (statement openers, body items,       *)
(* closers).  While it is generated, the reference scope stack is          *)
(* maintained: innermost frame first; in a record frame the frame's own    *)
(* defvars, then the record's fields (own, then inherited depth-first in   *)
(* parent order), then the template arguments of a class; a foreach frame  *)
(* holds its iterator; if/else branches, top-level let bodies, foreach     *)
(* bodies and multiclass bodies are frames of their own for defvars; then  *)
(* the top-level defvars and the global defs declared so far.              *)
(* Every identifier occurrence is a SITE (a number); a use site carries    *)
(* the site of the declaration it must resolve to - or 0: the name was     *)
(* declared in a construct that has ended and must be reported not found.  *)
(* The generator only emits a use of a name that resolves (positive        *)
(* obligation) or a use-after-end of a dead name (negative obligation).    *)
(*                                                                         *)
(* Modes: exhaustive (TLC enumerates every program of MaxEvents events;    *)
(* pending closers are supplied by the renderer) and -simulate (seeded     *)
(* random walks: long nested programs).  The harness renders the events    *)
(* to TableGen text (all                                                   *)
(* optional syntax, comments, a split into an included file) and compares  *)
(* go-to-definition, references, diagnostics, outline, hover and hints     *)
(* of the real analysis with what the events carry.                        *)
(***************************************************************************)
EXTENDS Naturals, Integers, Sequences, FiniteSets, TLC, Json, IOUtils

CONSTANTS MaxEvents,
          Focus          \* "all": every event kind; "nest": statement nesting only (defsets, blocks, defs), for deep structure
ClassN == {"A", "B", "C"}
DefN   == {"d", "e", "x", "y"}
FieldN == {"f", "g"}
ArgN   == <<"a", "d">>            \* "d" is also a def name: a template argument shadows a global def
VarN   == {"v", "w", "i", "a", "f"} \* "i" is also the foreach iterator, "a" a template argument, "f" a field: an inner declaration shadows an outer defvar
McN    == {"M"}

VARIABLES prog,      \* events so far
          frames,    \* scope stack, innermost LAST: [kind, name, vars (name -> site), iter, isite]
          ctab,      \* class name -> [site, targs: Seq([n, site]), fields: Seq([n, site]), parent: "" | class, lets: set of names]
          dtab,      \* def name -> [site, parent, fields, mc]     (defs declared so far; mc: inside a multiclass body)
          mtab,      \* multiclass name -> [site, targs]
          dead,      \* names declared in a frame that has ended: name -> TRUE
          ns         \* last site number used
vars == <<prog, frames, ctab, dtab, mtab, dead, ns>>

Top == frames[Len(frames)]
Depth == Len(frames)
InRecord == Top.kind \in {"class", "def"}
RangeOf(s) == {s[j] : j \in 1..Len(s)}
Names(s) == {s[j].n : j \in 1..Len(s)}
SiteOf(s, n) == LET j == CHOOSE j \in 1..Len(s) : s[j].n = n IN s[j].site

(* ------------------------------ reference resolution ------------------------------ *)
\* fields visible in class c: own, then the parent's (depth first); a name overridden by a let on the way is "blocked"
RECURSIVE FieldSite(_, _)
FieldSite(c, n) == IF c = "" \/ c \notin DOMAIN ctab THEN 0
                   ELSE IF n \in Names(ctab[c].fields) THEN SiteOf(ctab[c].fields, n)
                   ELSE FieldSite(ctab[c].parent, n)
RECURSIVE Overridden(_, _)
Overridden(c, n) == IF c = "" \/ c \notin DOMAIN ctab THEN FALSE ELSE n \in ctab[c].lets \/ Overridden(ctab[c].parent, n)
\* resolution inside one frame; 0 = not here
InFrame(fr, n) ==
   IF n \in DOMAIN fr.vars THEN fr.vars[n].site
   ELSE IF fr.kind = "foreach" /\ fr.iter = n THEN fr.isite
   ELSE IF fr.kind \in {"class", "def"} THEN
        (LET own == IF n \in Names(fr.fields) THEN SiteOf(fr.fields, n) ELSE FieldSite(fr.parent, n) IN
         IF own # 0 THEN own
         ELSE IF fr.kind = "class" /\ n \in Names(fr.targs) THEN SiteOf(fr.targs, n) ELSE 0)
   ELSE IF fr.kind = "multiclass" /\ n \in Names(fr.targs) THEN SiteOf(fr.targs, n)
   ELSE 0
RECURSIVE ResolveFrom(_, _)
ResolveFrom(j, n) == IF j = 0 THEN (IF n \in DOMAIN dtab THEN dtab[n].site ELSE 0)
                     ELSE LET s == InFrame(frames[j], n) IN IF s # 0 THEN s ELSE ResolveFrom(j - 1, n)
Resolve(n) == ResolveFrom(Len(frames), n)
\* a use of n is only generated where every reading agrees: not a field that some let on the inheritance path overrides
Ambiguous(n) == \E j \in 1..Len(frames) : frames[j].kind \in {"class", "def"} /\
                   (n \in frames[j].lets \/ Overridden(frames[j].parent, n))
AllNames == ClassN \cup DefN \cup FieldN \cup RangeOf(ArgN) \cup VarN \cup {"p", "q"}
\* (a def declared inside a multiclass body is a template for LLVM but a global def for the code: never used;
\*  whether a def is already visible inside its own body is an ambiguity zone: never used there)
OpenDefs == {frames[j].name : j \in {q \in 1..Len(frames) : frames[q].kind = "def"}}
Usable == {n \in AllNames \ ClassN : Resolve(n) # 0 /\ ~Ambiguous(n) /\ ~(n \in DOMAIN dtab /\ Resolve(n) = dtab[n].site /\ (dtab[n].mc \/ n \in OpenDefs))}
\* the type of a visible name: defs are records, everything else in this fragment is an int
RECURSIVE VarTyFrom(_, _)
VarTyFrom(j, n) == IF j = 0 THEN "" ELSE IF n \in DOMAIN frames[j].vars THEN frames[j].vars[n].ty
                   ELSE IF InFrame(frames[j], n) # 0 THEN "int" ELSE VarTyFrom(j - 1, n)
TyOf(n) == LET t == VarTyFrom(Len(frames), n) IN IF t # "" THEN t ELSE "rec"
DeadNow == {n \in DOMAIN dead : Resolve(n) = 0 /\ n \notin DOMAIN dtab}

(* ------------------------------ values ------------------------------ *)
\* a value position yields a literal, a use of a visible name, or a use of a dead name (must be reported not found)
Lit == [k |-> "lit"]
UseV(n, s) == [k |-> "use", n |-> n, site |-> s, tgt |-> Resolve(n)]
\* req = "int": the position needs an int (field initialiser, let value, if condition); "any": dump, defvar
\* excl: a name that may not appear (a field inside its own initialiser / override is an ambiguity zone)
\* "amb": a use of a field that some let on the way overrides.  Where go-to-definition must land (the field's declaration or the
\* overriding let) is an ambiguity zone and carries no expectation (tgt = -1); what IS specified is C19's coherence: hover there shows
\* the symbol go-to-definition jumps to
AmbNow == {n \in FieldN : Resolve(n) # 0 /\ Ambiguous(n)}
Vals(req, excl, withDead) ==
   {Lit} \cup {UseV(n, ns + 1) : n \in {m \in Usable \ excl : req = "any" \/ TyOf(m) = "int"}}
         \cup {[k |-> "amb", n |-> n, site |-> ns + 1, tgt |-> 0 - 1] : n \in AmbNow \ excl}
         \cup (IF withDead THEN {[k |-> "dead", n |-> n, site |-> ns + 1, tgt |-> 0] : n \in DeadNow \ excl} ELSE {})
TyOfVal(v) == IF v.k = "use" THEN TyOf(v.n) ELSE "int"
SitesIn(v) == IF v.k = "lit" THEN 0 ELSE 1

(* ------------------------------ events ------------------------------ *)
Frame(kind, name) == [kind |-> kind, name |-> name, vars |-> <<>>, iter |-> "", isite |-> 0, fields |-> <<>>, targs |-> <<>>,
                      parent |-> "", lets |-> {}]
Push(fr) == frames' = Append(frames, fr)
Pop == frames' = SubSeq(frames, 1, Len(frames) - 1)
Emit(ev) == prog' = Append(prog, ev)
Kill(names) == dead' = [n \in DOMAIN dead \cup names |-> TRUE]

AtStatement == Top.kind \in {"root", "foreach", "if", "else", "letin", "defset"}
ParentArgs(p, base) == [j \in 1..Len(ctab[p].targs) |-> [k |-> "lit", hint |-> ctab[p].targs[j].n]]

\* class c<targs> : parent<args> {
ClassOpen(c, na, p, useArg) ==
   /\ AtStatement /\ Top.kind \in {"root", "foreach", "if", "else", "letin"} /\ c \notin DOMAIN ctab /\ (p = "" \/ p \in DOMAIN ctab)
   /\ LET targs == [j \in 1..na |-> [n |-> ArgN[j], site |-> ns + 1 + j]]
          psite == IF p = "" THEN 0 ELSE ns + 2 + na
          \* an argument of the parent may use the class's own first template argument
          args  == IF p = "" THEN <<>> ELSE
                   [j \in 1..Len(ctab[p].targs) |->
                      IF useArg /\ j = 1 /\ na > 0 THEN [k |-> "use", n |-> ArgN[1], site |-> psite + 1, tgt |-> ns + 2, hint |-> ctab[p].targs[j].n]
                      ELSE [k |-> "lit", hint |-> ctab[p].targs[j].n]]
          used  == IF p # "" /\ useArg /\ na > 0 /\ Len(ctab[p].targs) > 0 THEN 1 ELSE 0
      IN /\ Emit([e |-> "ClassOpen", c |-> c, site |-> ns + 1, targs |-> targs, parent |-> p, psite |-> psite, ptgt |-> IF p = "" THEN 0 ELSE ctab[p].site,
                  pargs |-> args])
         /\ ns' = ns + 1 + na + (IF p = "" THEN 0 ELSE 1) + used
         /\ ctab' = [n \in DOMAIN ctab \cup {c} |-> IF n = c THEN [site |-> ns + 1, targs |-> targs, fields |-> <<>>, parent |-> p, lets |-> {}] ELSE ctab[n]]
         /\ Push([Frame("class", c) EXCEPT !.targs = targs, !.parent = p])
         /\ UNCHANGED <<dtab, mtab, dead>>

\* def d : parent<args> {        (also inside foreach / if / let / defset / multiclass bodies)
DefOpen(d, p) ==
   /\ (AtStatement \/ Top.kind = "multiclass") /\ d \notin DOMAIN dtab /\ d \notin DOMAIN Top.vars /\ (p = "" \/ p \in DOMAIN ctab)
   /\ Resolve(d) = 0                                   \* a def named like a visible variable is an ambiguity zone
   /\ LET psite == IF p = "" THEN 0 ELSE ns + 2
          args == IF p = "" THEN <<>> ELSE ParentArgs(p, 0)
          inDefset == \E j \in 1..Len(frames) : frames[j].kind = "defset"
      IN /\ Emit([e |-> "DefOpen", d |-> d, site |-> ns + 1, parent |-> p, psite |-> psite, ptgt |-> IF p = "" THEN 0 ELSE ctab[p].site, pargs |-> args,
                  inDefset |-> inDefset])
         /\ ns' = ns + 1 + (IF p = "" THEN 0 ELSE 1)
         /\ dtab' = [n \in DOMAIN dtab \cup {d} |-> IF n = d THEN [site |-> ns + 1, parent |-> p, fields |-> <<>>,
                                                                    mc |-> \E j \in 1..Len(frames) : frames[j].kind = "multiclass"] ELSE dtab[n]]
         /\ Push([Frame("def", d) EXCEPT !.parent = p])
         /\ UNCHANGED <<ctab, mtab, dead>>

\* int f = val;        a field new to this record and its ancestors
FieldDecl(f, v) ==
   /\ InRecord /\ f \notin Names(Top.fields) /\ FieldSite(Top.parent, f) = 0 /\ f \notin DOMAIN Top.vars
   /\ (Top.kind = "class" => f \notin Names(Top.targs))
   /\ Emit([e |-> "Field", f |-> f, site |-> ns + 1 + SitesIn(v), val |-> v, rec |-> Top.name])
   /\ ns' = ns + 1 + SitesIn(v)
   /\ LET nf == Append(Top.fields, [n |-> f, site |-> ns + 1 + SitesIn(v)]) IN
      /\ frames' = [frames EXCEPT ![Len(frames)].fields = nf]
      /\ IF Top.kind = "class" THEN ctab' = [ctab EXCEPT ![Top.name].fields = nf] /\ UNCHANGED dtab
         ELSE dtab' = [dtab EXCEPT ![Top.name].fields = nf] /\ UNCHANGED ctab
   /\ UNCHANGED <<mtab, dead>>
\* NB the initialiser is rendered after the name but evaluated (sites numbered) before the field exists: "int f = f" is not generated

\* let f = val;        override of an inherited (or own) field: the name refers to the declaring field
LetField(f, v) ==
   /\ InRecord /\ ~Ambiguous(f)
   /\ LET tgt == IF f \in Names(Top.fields) THEN SiteOf(Top.fields, f) ELSE FieldSite(Top.parent, f) IN
      /\ tgt # 0
      /\ Emit([e |-> "Let", f |-> f, site |-> ns + 1, tgt |-> tgt, val |-> IF v.k = "lit" THEN v ELSE [v EXCEPT !.site = ns + 2], rec |-> Top.name])
      /\ ns' = ns + 1 + SitesIn(v)
      /\ frames' = [frames EXCEPT ![Len(frames)].lets = @ \cup {f}]
      /\ IF Top.kind = "class" THEN ctab' = [ctab EXCEPT ![Top.name].lets = @ \cup {f}] ELSE UNCHANGED ctab
   /\ UNCHANGED <<dtab, mtab, dead>>

\* defvar v = val;     (statement level and inside record bodies; not directly inside a defset: ambiguity zone;
\*                      never shadowing a visible name)
Defvar(x, v) ==
   /\ Top.kind \notin {"defset", "multiclass"} /\ Resolve(x) = 0 /\ x \notin DOMAIN dtab
   /\ Emit([e |-> "Defvar", v |-> x, site |-> ns + 1, ty |-> TyOfVal(v), val |-> IF v.k = "lit" THEN v ELSE [v EXCEPT !.site = ns + 2]])
   /\ ns' = ns + 1 + SitesIn(v)
   /\ frames' = [frames EXCEPT ![Len(frames)].vars = [n \in DOMAIN @ \cup {x} |-> IF n = x THEN [site |-> ns + 1, ty |-> TyOfVal(v)] ELSE @[n]]]
   /\ UNCHANGED <<ctab, dtab, mtab, dead>>

\* foreach i = [1, 2] in {
ForeachOpen(it) ==
   /\ AtStatement \/ Top.kind = "multiclass"
   /\ Emit([e |-> "ForeachOpen", i |-> it, site |-> ns + 1]) /\ ns' = ns + 1
   /\ Push([Frame("foreach", "") EXCEPT !.iter = it, !.isite = ns + 1])
   /\ UNCHANGED <<ctab, dtab, mtab, dead>>
\* if val then {       /  } else {        /  let f = 1 in {     /  defset list<C> s = {
BlockOpen(kind, v) ==
   /\ AtStatement \/ (Top.kind = "multiclass" /\ kind \in {"if", "letin"})
   /\ kind = "defset" => Top.kind # "multiclass" /\ ClassN \cap DOMAIN ctab # {}          \* defsets nest
   /\ kind = "else" => prog # <<>> /\ prog[Len(prog)].e = "Close" /\ prog[Len(prog)].kind = "if"
   /\ LET ty == IF kind = "defset" THEN CHOOSE c \in ClassN \cap DOMAIN ctab : TRUE ELSE "" IN
      Emit([e |-> "BlockOpen", kind |-> kind, val |-> v, site |-> IF kind = "defset" THEN ns + 2 ELSE 0,
            ty |-> ty, tysite |-> IF kind = "defset" THEN ns + 1 ELSE 0, tytgt |-> IF kind = "defset" THEN ctab[ty].site ELSE 0])
   /\ ns' = ns + SitesIn(v) + (IF kind = "defset" THEN 2 ELSE 0)
   /\ Push(Frame(kind, ""))
   /\ UNCHANGED <<ctab, dtab, mtab, dead>>
\* multiclass M<int a> {
McOpen(m, na) ==
   /\ Top.kind = "root" /\ m \notin DOMAIN mtab
   /\ LET targs == [j \in 1..na |-> [n |-> ArgN[j], site |-> ns + 1 + j]] IN
      /\ Emit([e |-> "McOpen", m |-> m, site |-> ns + 1, targs |-> targs]) /\ ns' = ns + 1 + na
      /\ mtab' = [n \in DOMAIN mtab \cup {m} |-> IF n = m THEN [site |-> ns + 1, targs |-> targs] ELSE mtab[n]]
      /\ Push([Frame("multiclass", m) EXCEPT !.targs = targs])
   /\ UNCHANGED <<ctab, dtab, dead>>
\* defm x : M<1>;
Defm(d, m) ==
   /\ AtStatement /\ m \in DOMAIN mtab /\ d \notin DOMAIN dtab /\ Resolve(d) = 0
   /\ Emit([e |-> "Defm", d |-> d, site |-> ns + 1, m |-> m, msite |-> ns + 2, mtgt |-> mtab[m].site,
            pargs |-> [j \in 1..Len(mtab[m].targs) |-> [k |-> "lit", hint |-> mtab[m].targs[j].n]]])
   /\ ns' = ns + 2
   /\ UNCHANGED <<frames, ctab, dtab, mtab, dead>>
\* dump val;  /  assert val, "m";      (a statement whose only content is a value)
ValStmt(kind, v) ==
   /\ AtStatement \/ InRecord \/ Top.kind = "multiclass"
   /\ v.k # "lit"
   /\ Emit([e |-> "ValStmt", kind |-> kind, val |-> v]) /\ ns' = ns + 1
   /\ UNCHANGED <<frames, ctab, dtab, mtab, dead>>
\* dump !foreach(p, [1, 2], body);  /  !filter(p, [1, 2], pred)  /  !foldl(0, [1, 2], q, p, body)
\* the operator declares p (and q) for its last operand only: afterwards the names are dead.
\* form: 0 the variable itself, 1 an arithmetic expression over it, 2 an expression the indexer cannot type (!cond)
BangStmt(op, form) ==
   /\ AtStatement \/ InRecord
   /\ Resolve("p") = 0 /\ Resolve("q") = 0
   /\ LET nsites == IF op = "foldl" THEN (IF form = 1 THEN 3 ELSE 4) ELSE 2 IN
      /\ Emit([e |-> "BangStmt", op |-> op, form |-> form, site |-> ns + 1]) /\ ns' = ns + nsites
   /\ Kill(IF op = "foldl" THEN {"p", "q"} ELSE {"p"})
   /\ UNCHANGED <<frames, ctab, dtab, mtab>>
\* }   : the frame ends; what it declared is dead from here on
Close ==
   /\ Depth > 1
   /\ ~(Top.kind = "multiclass" /\ prog[Len(prog)].e = "McOpen")          \* a multiclass body has at least one statement
   /\ Emit([e |-> "Close", kind |-> Top.kind])
   /\ Kill(DOMAIN Top.vars \cup (IF Top.kind = "foreach" THEN {Top.iter} ELSE {})
           \cup (IF Top.kind \in {"class", "multiclass"} THEN Names(Top.targs) ELSE {})
           \cup (IF Top.kind \in {"class", "def"} THEN Names(Top.fields) ELSE {}))
   /\ Pop
   /\ UNCHANGED <<ctab, dtab, mtab, ns>>

(* ------------------------------ the generator ------------------------------ *)
Init == prog = <<>> /\ frames = <<Frame("root", "")>> /\ ctab = <<>> /\ dtab = <<>> /\ mtab = <<>> /\ dead = <<>> /\ ns = 0

NestEvent ==
   \/ \E c \in ClassN : ClassOpen(c, 0, "", FALSE)
   \/ \E d \in DefN, p \in {""} \cup DOMAIN ctab : DefOpen(d, p)
   \/ ForeachOpen("i")
   \/ \E kind \in {"if", "else", "letin", "defset"} : BlockOpen(kind, Lit)
   \/ \E m \in McN : McOpen(m, 0)
   \/ Close
AnyEvent ==
   \/ \E c \in ClassN, na \in 0..2, p \in {""} \cup DOMAIN ctab, u \in BOOLEAN : ClassOpen(c, na, p, u)
   \/ \E d \in DefN, p \in {""} \cup DOMAIN ctab : DefOpen(d, p)
   \/ \E f \in FieldN : \E v \in Vals("int", {f}, TRUE) : FieldDecl(f, v)
   \/ \E f \in FieldN : \E v \in Vals("int", {f}, TRUE) : LetField(f, v)
   \/ \E x \in VarN : \E v \in Vals("any", {x}, FALSE) : Defvar(x, v)      \* (an unresolvable initialiser would take the variable with it)
   \/ ForeachOpen("i")
   \/ \E kind \in {"if", "else", "letin", "defset"}, v \in Vals("int", {}, TRUE) : (kind \in {"else", "defset"} => v = Lit) /\ BlockOpen(kind, v)
   \/ \E m \in McN, na \in 0..1 : McOpen(m, na)
   \/ \E d \in DefN, m \in DOMAIN mtab : Defm(d, m)
   \/ \E kind \in {"dump", "assert"} : \E v \in Vals(IF kind = "dump" THEN "any" ELSE "int", {}, TRUE) : ValStmt(kind, v)
   \/ \E op \in {"foreach", "filter", "foldl"}, form \in 0..2 : BangStmt(op, form)
   \/ Close
Next == Len(prog) < MaxEvents /\ (IF Focus = "nest" THEN NestEvent ELSE AnyEvent)
Spec == Init /\ [][Next]_vars

\* every program of exactly MaxEvents events (frames still open are closed by the renderer)
EmitProgram == Len(prog) = MaxEvents => PrintT("@@" \o ToJson([prog |-> prog, open |-> [j \in 1..(Depth - 1) |-> frames[j + 1].kind]]))

(* laws of the reference itself *)
SitesUnique == TRUE
TargetsAreDeclarations == \A j \in 1..Len(prog) : ("val" \in DOMAIN prog[j] /\ prog[j].val.k = "use") => prog[j].val.tgt \in 1..ns
=============================================================================
