SPECIFICATION Spec
CONSTANT WorkFactor = 64
POSTCONDITION AllConsumed
CHECK_DEADLOCK FALSE
