SPECIFICATION Spec
CONSTANTS
  Reading = "liberal"
INVARIANT PrintAccepted
POSTCONDITION PrintFurthest
CHECK_DEADLOCK FALSE
