SPECIFICATION Spec
CONSTANT Emit = "all"
CHECK_DEADLOCK FALSE
