SPECIFICATION Spec
POSTCONDITION AllConsumed
CHECK_DEADLOCK FALSE
