SPECIFICATION TSpec
CONSTANTS
  Msgs <- TraceMsgs
  NFiles = 1000000
  Variant = "snapshot-copy"
  SplitEnd = TRUE
POSTCONDITION AllConsumed
CHECK_DEADLOCK FALSE
