----------------------------- MODULE GrammarRec -----------------------------
(***************************************************************************)
(* Recogniser use of the grammar automaton (C04 converse direction; trace  *)
(* validation): is a recorded sequence of token kinds a behaviour of the   *)
(* grammar?  Each trace of the batch is explored independently (tr); a     *)
(* configuration is (stack, pos).  Expand is pruned by FIRST sets and by   *)
(* the minimal yield of the stack against the remaining input, which also  *)
(* bounds the stack.  Accepted traces are printed; for every trace the     *)
(* furthest position any configuration reached is kept in a TLC register   *)
(* (run with -workers 1) and printed at the end, so that a rejection can   *)
(* be located ("stuck at token k") without a counterexample.               *)
(***************************************************************************)
EXTENDS Grammar, Json, IOUtils

Traces == JsonDeserialize(IOEnv.TRACES)       \* <<  <<"class", "ID", ";">>, ... >>
VARIABLES tr, pos, stack
vars == <<tr, pos, stack>>
T == Traces[tr]
Reg(i) == 1000 + i

Init == /\ tr \in 1..Len(Traces) /\ pos = 1 /\ stack = <<"SourceFile">>
        /\ TLCSet(Reg(tr), 1)

Viable(st) == /\ StackLen(st) <= Len(T) - pos + 1
              /\ pos <= Len(T) => T[pos] \in FirstOfSeq(st, First)

Expand == /\ stack # <<>> /\ IsNT(Head(stack))
          /\ \E i \in 1..Len(Prods(Head(stack))) :
               LET new == Prods(Head(stack))[i].rhs \o Tail(stack)
               IN Viable(new) /\ stack' = new
          /\ UNCHANGED <<tr, pos>>

Match == /\ stack # <<>> /\ ~IsNT(Head(stack)) /\ pos <= Len(T) /\ Head(stack) = T[pos]
         /\ pos' = pos + 1 /\ stack' = Tail(stack) /\ UNCHANGED tr
         /\ (pos' > TLCGet(Reg(tr)) => TLCSet(Reg(tr), pos'))

Next == Expand \/ Match
Spec == Init /\ [][Next]_vars

Accepted == stack = <<>> /\ pos = Len(T) + 1
PrintAccepted == Accepted => PrintT("@@" \o ToJson([acc |-> tr]))
PrintFurthest == PrintT("@@" \o ToJson([far |-> [i \in 1..Len(Traces) |-> TLCGet(Reg(i))]]))
=============================================================================
