------------------------- MODULE MCServerImplOpen -------------------------
EXTENDS ServerImplOpen
TraceMsgs3 == <<"N", "N", "N">>
TraceMsgs4 == <<"N", "N", "N", "N">>
TraceMsgs5 == <<"N", "N", "N", "N", "N">>
TraceMsgs6 == [i \in 1..6 |-> "N"]
TraceMsgs7 == [i \in 1..7 |-> "N"]
TraceMsgs8 == [i \in 1..8 |-> "N"]
=============================================================================
