------------------------------- MODULE Server -------------------------------
(***************************************************************************)
(* Reference model of an LSP session with the server, at the level the     *)
(* properties C08, C11, C12 speak: documents, editor buffers, the disk,    *)
(* the last-touched root, published diagnostics, requests and responses.   *)
(* No threads, no locks, no file ids: every behaviour of any correct       *)
(* server is a behaviour of this module.                                   *)
(*                                                                         *)
(* A *text* is abstracted to  [k, inc, faulty, lay, um, mm] :              *)
(*    k       version number, unique per file; the text declares the       *)
(*            marker class  M_<file>_<k>  (so the outline shows which      *)
(*            version the server analysed)                                 *)
(*    inc     the files it includes, in order                              *)
(*    faulty  whether it uses the undefined class  U_<file>_<k>            *)
(*            (=> exactly one diagnostic "class not found: U_<file>_<k>")  *)
(*    lay     layout: the same declarations at the same byte offsets, but  *)
(*            separated by line breaks (0) or by blanks (1)                *)
(*    um, mm  the two markers *with the LSP range they occupy in this      *)
(*            text* ("U_a_3@1:12-1:17"), as reported by whoever rendered   *)
(*            the text; opaque strings here                                *)
(* The same actions are used by SessionGen.tla (TLC enumerates sessions)   *)
(* and by TraceServer.tla (validation of recorded JSON-RPC traces).        *)
(***************************************************************************)
EXTENDS Naturals, Integers, Sequences, FiniteSets, TLC

CONSTANTS File          \* set of file names
None    == [k |-> -1, inc |-> <<>>, faulty |-> FALSE, lay |-> 0, um |-> "", mm |-> ""]     \* no buffer / no such file on disk
NoPub   == [ver |-> -1, set |-> {}]

VARIABLES disk,         \* File -> text | None
          open,         \* File -> text | None           editor buffers (source of truth when present)
          root,         \* File | ""                     the last touched document
          published,    \* File -> [ver, set]            last publishDiagnostics per file
          pending       \* request id -> [kind, file, expect]   in-flight requests
svars == <<disk, open, root, published, pending>>

Range(s) == {s[i] : i \in 1..Len(s)}
Overlay(f) == IF open[f] # None THEN open[f] ELSE disk[f]
Exists(f)  == Overlay(f) # None

\* files reachable from the root through resolvable includes (least fixpoint, |File| rounds suffice)
RECURSIVE ReachN(_, _)
ReachN(S, n) == IF n = 0 THEN S
                ELSE ReachN(S \cup {g \in File : \E f \in S : g \in Range(Overlay(f).inc) /\ Exists(g)}, n - 1)
Reach == IF root = "" THEN {} ELSE ReachN({root}, Cardinality(File))

UMarker(f)   == Overlay(f).um
MMarker(f)   == Overlay(f).mm
NFMarker(g)  == "NF:" \o g
\* diagnostics of the final state, as marker sets: nothing for a file outside the workspace
Diag(f) == IF f \notin Reach THEN {}
           ELSE (IF Overlay(f).faulty THEN {UMarker(f)} ELSE {})
                \cup {NFMarker(g) : g \in {h \in Range(Overlay(f).inc) : h \notin File \/ ~Exists(h)}}

Init == /\ disk \in [File -> {None}] /\ open = [f \in File |-> None] /\ root = ""
        /\ published = [f \in File |-> NoPub] /\ pending = <<>>

DiskWrite(f, t) == disk' = [disk EXCEPT ![f] = t] /\ UNCHANGED <<open, root, published, pending>>
Open(f, t)      == open' = [open EXCEPT ![f] = t] /\ root' = f /\ UNCHANGED <<disk, published, pending>>
Change(f, t)    == open[f] # None /\ Open(f, t)

\* C11: version numbers published for a file never decrease; any set may be published on the way
PublishOk(f, ver)  == ver >= published[f].ver
Publish(f, ver, S) == /\ PublishOk(f, ver)
                      /\ published' = [published EXCEPT ![f] = [ver |-> ver, set |-> S]]
                      /\ UNCHANGED <<disk, open, root, pending>>

\* C12: what a documentSymbol answer for f must show: the marker of the latest text the editor sent (or the disk
\* text of a never-opened file), as of the request's position in the client's message order.  "" = unspecified.
ExpectOutline(f) == IF f \in Reach THEN MMarker(f) ELSE ""
Request(id, kind, f) == /\ id \notin DOMAIN pending
                        /\ pending' = pending @@ (id :> [kind |-> kind, file |-> f,
                                                         expect |-> IF kind = "outline" THEN ExpectOutline(f) ELSE ""])
                        /\ UNCHANGED <<disk, open, root, published>>
RespondOk(id, markers) == /\ id \in DOMAIN pending
                          /\ pending[id].expect # "" => markers = {pending[id].expect}
Respond(id, markers)   == /\ RespondOk(id, markers)
                          /\ pending' = [j \in DOMAIN pending \ {id} |-> pending[j]]
                          /\ UNCHANGED <<disk, open, root, published>>

\* C08 / C11 at a point where the client observed the server idle
Answered  == pending = <<>>                                            \* every request got exactly one response
Converges == \A f \in File : published[f].set = Diag(f)                \* stale entries are gone, fixed problems cleared
=============================================================================
