------------------------------ MODULE LexTrace ------------------------------
(***************************************************************************)
(* Trace validation for C14: every line of the trace is one text (as a     *)
(* sequence of one-character strings) with the tokens the REAL lexer made  *)
(* of it (canonical kind, start, end in characters, 1-based, end           *)
(* exclusive) and the number of lexical errors it reported.  Where the     *)
(* reference lexer finds only valid tokens, the real lexer must have       *)
(* produced exactly those, with no error.                                  *)
(***************************************************************************)
EXTENDS Lexer, Json, IOUtils

Rec == ndJsonDeserialize(IOEnv.TRACE)
VARIABLE l

Judge(r) ==
  LET L == Lex(r.cps)
      valid == \A n \in 1..Len(L) : L[n][1] # "err" IN
  IF ~valid THEN PrintT("@@" \o ToJson([id |-> r.id, verdict |-> "no-expectation"]))
  ELSE IF L = r.toks /\ r.nerr = 0 THEN TRUE
  ELSE LET m == CHOOSE n \in 1..(Len(L) + 1) : (n > Len(L) \/ n > Len(r.toks) \/ L[n] # r.toks[n]) /\
                                               \A q \in 1..(n - 1) : q <= Len(r.toks) /\ L[q] = r.toks[q] IN
       PrintT("@@" \o ToJson([id |-> r.id, verdict |-> "rejected", at |-> m,
                               expected |-> IF m <= Len(L) THEN L[m] ELSE <<"end", 0, 0>>,
                               got |-> IF m <= Len(r.toks) THEN r.toks[m] ELSE <<"end", 0, 0>>, nerr |-> r.nerr]))
Init == l = 1
Next == l <= Len(Rec) /\ Judge(Rec[l]) /\ l' = l + 1
Spec == Init /\ [][Next]_l
AllConsumed == TLCGet("stats").diameter = Len(Rec) + 1
=============================================================================
