SPECIFICATION Spec
CONSTANTS
  MaxEvents = 3
  Focus = "all"
INVARIANT EmitProgram
INVARIANT TargetsAreDeclarations
CHECK_DEADLOCK FALSE
