SPECIFICATION Spec
CONSTANTS
  Reading = "strict"
  MaxTokens = 6
  Start = "SourceFile"
  Collapse = {}
INVARIANT EmitSentence
INVARIANT WithinBudget
CHECK_DEADLOCK FALSE
