----------------------------- MODULE GrammarGen -----------------------------
(***************************************************************************)
(* Generator use of the grammar automaton (C04 forward direction, and the  *)
(* program source for C01/C02/C03/C06/C17).  One behaviour = one leftmost  *)
(* derivation.  `out` is the sentence with node markers "$(Kind" ... "$)"  *)
(* around every constituent that the typed syntax tree exposes, i.e. the   *)
(* expected tree skeleton.  Completed sentences leave TLC as JSON lines.   *)
(*                                                                         *)
(* Two modes, one automaton:                                               *)
(*  - exhaustive (Tapes = <<>>): Expand chooses nondeterministically, TLC  *)
(*    enumerates every derivation of every sentence of <= MaxTokens        *)
(*    terminals (and with it every viable prefix);                         *)
(*  - tape-driven: each behaviour follows one choice tape (a sequence of   *)
(*    numbers drawn by the orchestrator from VERIF_SEED) with its own      *)
(*    budget; a tape value selects among the productions that still fit    *)
(*    the budget, recursive alternatives weighted up so that long, nested  *)
(*    programs come out.  TLC explores all tapes of a batch in one run.    *)
(***************************************************************************)
EXTENDS Grammar, Json, IOUtils

CONSTANTS MaxTokens,     \* exhaustive mode: bound on the number of terminals of a sentence
          Start,         \* start symbol
          Collapse       \* nonterminals forced to their first shortest production (factorised enumeration:
                         \* statement skeletons with minimal values/types, and values on their own)
Tapes == IF "TAPES" \in DOMAIN IOEnv /\ IOEnv.TAPES # "" THEN JsonDeserialize(IOEnv.TAPES) ELSE <<>>
\* completion mode: start from recorded configurations [out, stack, n] (the parser contexts found by the
\* VIEW-collapsed search) instead of the start symbol; with Collapse = NT each is completed minimally
Seeds == IF "SEEDS" \in DOMAIN IOEnv /\ IOEnv.SEEDS # "" THEN JsonDeserialize(IOEnv.SEEDS) ELSE <<>>

VARIABLES stack, out, n,
          tp, k          \* tape-driven mode: which tape, position in it (0, 0 in exhaustive mode)
vars == <<stack, out, n, tp, k>>

Budget == IF tp = 0 THEN MaxTokens ELSE Tapes[tp].max

Init == IF Seeds # <<>>
        THEN \E i \in 1..Len(Seeds) : stack = Seeds[i].stack /\ out = Seeds[i].out /\ n = Seeds[i].n /\ k = 1 /\ tp = 0
        ELSE /\ stack = <<Start>> /\ out = <<>> /\ n = 0 /\ k = 1
             /\ IF Tapes = <<>> THEN tp = 0 ELSE tp \in 1..Len(Tapes)

Fits(p, h) == n + StackLen((IF IsNode(h) THEN p.rhs \o <<"$)">> ELSE p.rhs) \o Tail(stack)) <= Budget

Apply(p, h) == /\ stack' = (IF IsNode(h) THEN p.rhs \o <<"$)">> ELSE p.rhs) \o Tail(stack)
               /\ out' = IF IsNode(h) THEN Append(out, "$(" \o NodeKind[h]) ELSE out
               /\ n' = n

\* a production that can derive something longer than the shortest alternative is drawn 3 times as often
Weight(p, h) == IF SumLen(p.rhs, MinLen) > MinLen[h] THEN 3 ELSE 1
RECURSIVE Pick(_, _, _, _)
Pick(ps, i, t, h) == IF i = Len(ps) \/ t < Weight(ps[i], h) THEN ps[i] ELSE Pick(ps, i + 1, t - Weight(ps[i], h), h)
RECURSIVE Total(_, _, _)
Total(ps, i, h) == IF i > Len(ps) THEN 0 ELSE Weight(ps[i], h) + Total(ps, i + 1, h)

Expand == /\ stack # <<>> /\ IsNT(Head(stack))
          /\ LET h == Head(stack)
                 shortest == SelectSeq(Prods(h), LAMBDA p : SumLen(p.rhs, MinLen) = MinLen[h])
                 allowed == IF h \in Collapse \/ "*" \in Collapse THEN <<shortest[1]>> ELSE SelectSeq(Prods(h), LAMBDA p : Fits(p, h))
             IN IF tp = 0
                THEN /\ \E i \in 1..Len(allowed) : Apply(allowed[i], h)
                     /\ UNCHANGED <<tp, k>>
                ELSE LET tape == Tapes[tp].tape
                         t == tape[((k - 1) % Len(tape)) + 1] % Total(allowed, 1, h)
                     IN /\ Apply(Pick(allowed, 1, t, h), h)
                        /\ k' = k + 1 /\ tp' = tp

Emit == /\ stack # <<>> /\ ~IsNT(Head(stack))
        /\ stack' = Tail(stack)
        /\ out' = Append(out, Head(stack))
        /\ n' = IF Head(stack) = "$)" THEN n ELSE n + 1
        /\ UNCHANGED <<tp, k>>

Next == Expand \/ Emit
Spec == Init /\ [][Next]_vars

Done == stack = <<>>
EmitSentence == Done => PrintT("@@" \o ToJson([out |-> out, n |-> n, tp |-> tp]))
\* context coverage: print every distinct context right before a terminal is emitted (or at the end)
EmitContext == (stack = <<>> \/ ~IsNT(Head(stack))) => PrintT("@@" \o ToJson([out |-> out, stack |-> stack, n |-> n]))

\* VIEW for context coverage: states are identified by their stack only, so TLC's BFS visits every
\* distinct parser context (pending symbols) once, reached by one shortest viable prefix
RECURSIVE LastTerminal(_)
LastTerminal(o) == IF o = <<>> THEN "" ELSE IF SubSeq(o[Len(o)], 1, 1) = "$" /\ Len(o[Len(o)]) > 1 THEN LastTerminal(SubSeq(o, 1, Len(o) - 1)) ELSE o[Len(o)]
StackView == <<stack, LastTerminal(out)>>

\* design-level facts checked on the generator itself
WithinBudget == n + StackLen(stack) <= Budget        \* hence every behaviour terminates with a sentence
GrammarTablesOk == MinLenStable
=============================================================================
