------------------------------- MODULE Obs -------------------------------
(***************************************************************************)
(* Oracle-free invariants over *observation records*.                      *)
(*                                                                         *)
(* An observation record is the full projected result of one call of the   *)
(* real code (syntax::parse on one text; the whole query set of the        *)
(* analysis on one workspace), written by the harness as one JSON line.    *)
(* The harness only projects (offsets, booleans such as "the token text    *)
(* equals the input slice", interned text ids); every judgement is made    *)
(* here, by TLC, on every record (ObsTrace.tla steps through the file).    *)
(*                                                                         *)
(* Each property is a sequence of named clauses so that a rejection can    *)
(* be reported - and fingerprinted - by the clause that failed.            *)
(***************************************************************************)
EXTENDS Naturals, Integers, Sequences, FiniteSets, TLC

CONSTANT WorkFactor     \* C02: parser steps allowed per token (constant multiple)

Ok(r) == r.outcome = "Ok"

(***************************************************************************)
(* C01  Lossless syntax tree.  r = observation of syntax::parse(text):     *)
(*   len     byte length of the input                                      *)
(*   ntok    number of leaf tokens of the tree, in order                   *)
(*   ts, te  start / end offset of each token's text_range                 *)
(*   tq      token.text() = input[ts..te)   (the one thing TLC cannot see) *)
(*   treeEq  syntax_node().text() = input                                  *)
(***************************************************************************)
LosslessClauses(r) == <<
   <<"tree-text-equals-input", r.treeEq>>,
   <<"arrays-consistent", Len(r.ts) = r.ntok /\ Len(r.te) = r.ntok /\ Len(r.tq) = r.ntok>>,
   <<"no-tokens-only-for-empty-input", r.ntok = 0 => r.len = 0>>,
   <<"first-token-starts-at-0", r.ntok > 0 => r.ts[1] = 0>>,
   <<"last-token-ends-at-len", r.ntok > 0 => r.te[r.ntok] = r.len>>,
   <<"token-range-is-position-of-its-text", \A i \in 1..r.ntok : r.tq[i]>>,
   <<"ranges-ordered", \A i \in 1..r.ntok : r.ts[i] <= r.te[i]>>,
   <<"tokens-tile-the-input", \A i \in 1..(r.ntok - 1) : r.te[i] = r.ts[i + 1]>>
 >>

(***************************************************************************)
(* C02  Parser totality.  Additional fields:                               *)
(*   outcome  Ok | Panic | Hang | Crash                                    *)
(*   steps    units of lexer/parser work (hook counter)                    *)
(*   nraw     number of raw lexical tokens of the text                     *)
(*   errs     <<s, e, sIsCharBoundary, eIsCharBoundary, msglen>> per error *)
(***************************************************************************)
TotalClauses(r) == <<
   <<"terminates-without-panic", Ok(r)>>,
   <<"work-bounded-by-tokens", Ok(r) => r.steps <= WorkFactor * (r.nraw + 16)>>,
   <<"error-message-nonempty", Ok(r) => \A i \in 1..Len(r.errs) : r.errs[i][5] > 0>>,
   <<"error-range-inside-text", Ok(r) => \A i \in 1..Len(r.errs) :
        0 <= r.errs[i][1] /\ r.errs[i][1] <= r.errs[i][2] /\ r.errs[i][2] <= r.len>>,
   <<"error-range-on-char-boundaries", Ok(r) => \A i \in 1..Len(r.errs) : r.errs[i][3] /\ r.errs[i][4]>>
 >>

(***************************************************************************)
(* C03  Analysis totality.  r = observation of one workspace:              *)
(*   outcome  Ok | Panic (set-up / diagnostics) | Hang | Crash             *)
(*   nq       number of queries made;  fails  the ones that panicked       *)
(***************************************************************************)
AnsweredClauses(r) == <<
   <<"workspace-analysed-without-panic-overflow-or-hang", Ok(r)>>,
   <<"every-query-answered", Ok(r) => Len(r.fails) = 0>>
 >>

(***************************************************************************)
(* C17  Range validity.  r.ranges = one tuple per range of every result:   *)
(*   <<query, fileIndex (-1: not a workspace file), s, e, len, sB, eB>>    *)
(***************************************************************************)
RangeOk(x) == /\ x[2] >= 0                       \* names a file of the current workspace
              /\ 0 <= x[3] /\ x[3] <= x[4]       \* start <= end
              /\ x[4] <= x[5]                    \* inside the file's current text
              /\ x[6] /\ x[7]                    \* on UTF-8 character boundaries
RangesClauses(r) == <<
   <<"every-range-valid", Ok(r) => \A i \in 1..Len(r.ranges) : RangeOk(r.ranges[i])>>
 >>
BadRanges(r) == IF Ok(r) THEN {r.ranges[i][1] : i \in {j \in 1..Len(r.ranges) : ~RangeOk(r.ranges[j])}} ELSE {}

(***************************************************************************)
(* C06  Definition/reference coherence.  r.idents = one record per         *)
(* identifier token x for which go-to-definition answers:                  *)
(*   loc = <<file, s, e>>, txt (interned text),                            *)
(*   def = [loc, isIdent, txt],                                            *)
(*   refs = [loc, isIdent, txt, def (go-to-definition from that ref)]*     *)
(***************************************************************************)
TargetIsSameIdent(x)  == x.def.isIdent /\ x.def.txt = x.txt                                       \* (1)
RefsAreSameIdent(x)   == \A j \in 1..Len(x.refs) : x.refs[j].isIdent /\ x.refs[j].txt = x.txt      \* (2)
RefsLeadToTarget(x)   == \A j \in 1..Len(x.refs) : x.refs[j].def = x.def.loc                        \* (3)
CursorIsTargetOrRef(x) == (x.nrefs = Len(x.refs)) =>                                                \* (4) (all refs recorded)
                             (x.loc = x.def.loc \/ \E j \in 1..Len(x.refs) : x.refs[j].loc = x.loc)
CoherentClauses(r) == <<
   <<"target-is-identifier-with-same-text", Ok(r) => \A i \in 1..Len(r.idents) : TargetIsSameIdent(r.idents[i])>>,
   <<"references-are-identifiers-with-same-text", Ok(r) => \A i \in 1..Len(r.idents) : RefsAreSameIdent(r.idents[i])>>,
   <<"references-lead-to-the-same-target", Ok(r) => \A i \in 1..Len(r.idents) : RefsLeadToTarget(r.idents[i])>>,
   <<"cursor-is-target-or-reference", Ok(r) => \A i \in 1..Len(r.idents) : CursorIsTargetOrRef(r.idents[i])>>
 >>

Failed(clauses) == {clauses[i][1] : i \in {j \in 1..Len(clauses) : ~clauses[j][2]}}
=============================================================================
