------------------------------ MODULE LocTrace ------------------------------
(***************************************************************************)
(* C09 location fidelity (trace validation).  One record per workspace:    *)
(*   texts  the current text of every document, as character classes       *)
(*   locs   every range/location the real server sent, next to what the    *)
(*          analysis computed for the same query on the same state:        *)
(*          [m, f, u, bs, be, l0, c0, l1, c1]                              *)
(*            m       request kind                                          *)
(*            f       the file the analysis' span lies in                  *)
(*            u       the file the server's URI names  (0: unknown)        *)
(*            bs, be  the span the analysis computed (byte offsets in f)   *)
(*            l0..c1  the LSP range the server sent (-1: not a range kind) *)
(* The server's range, interpreted against the current text of the         *)
(* document it names, must denote exactly the analysed span - mapped by    *)
(* the reference mapper with the TARGET file's text.                       *)
(***************************************************************************)
EXTENDS PosRef, TLC, Json, IOUtils, FiniteSets

Rec == ndJsonDeserialize(IOEnv.TRACE)
VARIABLE l

Bad(r, x) ==
  LET T == r.texts[x.f] IN
  IF x.u # x.f THEN "names-another-document"
  ELSE IF x.m = "foldingRange" THEN (IF Pos(T, x.bs)[1] = x.l0 /\ Pos(T, x.be)[1] = x.l1 THEN "" ELSE "fold-lines-differ")
  ELSE IF Pos(T, x.bs) # <<x.l0, x.c0>> THEN "start-differs"
  ELSE IF Pos(T, x.be) # <<x.l1, x.c1>> THEN "end-differs"
  ELSE ""
Judge(r) == LET bad == {i \in 1..Len(r.locs) : Bad(r, r.locs[i]) # ""} IN
            IF bad = {} THEN TRUE
            ELSE PrintT("@@" \o ToJson([id |-> r.id, n |-> Cardinality(bad),
                                        first |-> [i \in {CHOOSE j \in bad : \A k \in bad : j <= k} |-> <<Bad(r, r.locs[i]), r.locs[i]>>]]))
Init == l = 1
Next == l <= Len(Rec) /\ Judge(Rec[l]) /\ l' = l + 1
Spec == Init /\ [][Next]_l
AllConsumed == TLCGet("stats").diameter = Len(Rec) + 1
=============================================================================
