--------------------------- MODULE MCServerImpl ---------------------------
(* Model-checking instances of ServerImpl: the message sequences explored. *)
EXTENDS ServerImpl
MsgsNRNR  == <<"N", "R", "N", "R">>
MsgsNNN   == <<"N", "N", "N">>
MsgsRNRNR == <<"R", "N", "R", "N", "R">>
MsgsNRRN  == <<"N", "R", "R", "N">>
=============================================================================
