------------------------------ MODULE Grammar ------------------------------
(***************************************************************************)
(* The documented TableGen grammar of the project (syntax.md, extended by  *)
(* the rule comments in crates/syntax/src/grammar/*.rs) as data, and a     *)
(* pushdown automaton over it.  The same automaton is used                 *)
(*   - as a GENERATOR  (GrammarGen.tla): every reachable state is a viable *)
(*     prefix, every state with an empty stack a sentence; `out` carries   *)
(*     the derivation as a bracketed string (node markers), i.e. the       *)
(*     expected tree skeleton;                                             *)
(*   - as a RECOGNISER (GrammarRec.tla): is a recorded token-kind sequence *)
(*     a behaviour of the grammar?  (trace validation, converse of C04).   *)
(*                                                                         *)
(* Terminals are written by their spelling ("class", "{", "...") or, for   *)
(* token classes, ID INT BININT STR CODE VARNAME BANG (any bang operator   *)
(* except !cond) and "!cond".  EBNF stars are unrolled right-recursively.  *)
(*                                                                         *)
(* Reading = "strict": only what every reading of the documents accepts    *)
(* (positive obligations: must parse without error).  Reading = "liberal": *)
(* additionally everything some reading accepts (an input rejected by the  *)
(* liberal reading must be flagged).  Productions tagged lib = TRUE exist  *)
(* only in the liberal reading; see DESIGN.md Appendix E.                  *)
(***************************************************************************)
EXTENDS Naturals, Sequences, FiniteSets, TLC

CONSTANT Reading          \* "strict" | "liberal"

S(rhs) == [rhs |-> rhs, lib |-> FALSE]      \* production of both readings
L(rhs) == [rhs |-> rhs, lib |-> TRUE]       \* production of the liberal reading only
E == <<>>

AllProd == [
  SourceFile      |-> <<S(<<"Statements">>)>>,
  Program         |-> <<S(<<"Statement", "Statements">>)>>,          \* a non-empty SourceFile (generator start symbol)
  Statements      |-> <<S(E), S(<<"Statement", "Statements">>)>>,
  Statement       |-> <<S(<<"Include">>), S(<<"Assert">>), S(<<"Class">>), S(<<"Def">>), S(<<"Defm">>), S(<<"Defset">>),
                       S(<<"Defvar">>), S(<<"Dump">>), S(<<"Foreach">>), S(<<"If">>), S(<<"Let">>), S(<<"MultiClass">>)>>,
  Include         |-> <<S(<<"include", "String">>)>>,
  Class           |-> <<S(<<"class", "Identifier", "TemplateArgListOpt", "RecordBody">>)>>,
  TemplateArgListOpt |-> <<S(E), S(<<"TemplateArgList">>)>>,
  Def             |-> <<S(<<"def", "NameValueOpt", "RecordBody">>)>>,
  NameValueOpt    |-> <<S(E), S(<<"NameValue">>)>>,
  \* Value in name mode: no "{...}" suffix (it would be the body), cannot start with "{"
  NameValue       |-> <<S(<<"NameInner", "NamePasteTail">>)>>,
  \* after "#" the documents do not say whether "{" starts a bits value or the body; the liberal reading admits the value
  NamePasteTail   |-> <<S(E), S(<<"#", "NameInner", "NamePasteTail">>), L(<<"#", "InnerValue", "NamePasteTail">>)>>,
  NameInner       |-> <<S(<<"NameSimple", "NameSuffixes">>)>>,
  NameSimple      |-> <<S(<<"Integer">>), S(<<"String">>), S(<<"Code">>), S(<<"Boolean">>), S(<<"Uninitialized">>), S(<<"List">>),
                       S(<<"Dag">>), S(<<"Identifier">>), S(<<"ClassValue">>), S(<<"BangOperator">>), S(<<"CondOperator">>)>>,
  NameSuffixes    |-> <<S(E), S(<<"SliceSuffix", "NameSuffixes">>), S(<<"FieldSuffix", "NameSuffixes">>)>>,
  Let             |-> <<S(<<"let", "LetList", "in", "Block">>)>>,
  LetList         |-> <<S(<<"LetItem", "LetItems">>)>>,
  LetItems        |-> <<S(E), S(<<",", "LetItem", "LetItems">>)>>,
  LetItem         |-> <<S(<<"Identifier", "LetRangeOpt", "=", "Value">>)>>,
  LetRangeOpt     |-> <<S(E), S(<<"<", "RangeList", ">">>), L(<<"<", "RangeList", ",", ">">>)>>,
  Block           |-> <<S(<<"{", "Statements", "}">>), S(<<"Statement">>)>>,
  BracedBlock     |-> <<S(<<"{", "Statements", "}">>)>>,
  MultiClass      |-> <<S(<<"multiclass", "Identifier", "TemplateArgListOpt", "ParentClassList", "{", "MCStatement", "MCStatements", "}">>)>>,
  MCStatements    |-> <<S(E), S(<<"MCStatement", "MCStatements">>)>>,
  MCStatement     |-> <<S(<<"Assert">>), S(<<"Def">>), S(<<"Defm">>), S(<<"Dump">>), S(<<"Foreach">>), S(<<"Let">>), S(<<"If">>)>>,
  Defm            |-> <<S(<<"defm", "NameValueOpt", "ParentClassList", ";">>)>>,
  Defset          |-> <<S(<<"defset", "Type", "Identifier", "=", "{", "Statements", "}">>)>>,
  Defvar          |-> <<S(<<"defvar", "Identifier", "=", "Value", ";">>)>>,
  Dump            |-> <<S(<<"dump", "Value", ";">>)>>,
  Foreach         |-> <<S(<<"foreach", "ForeachIterator", "in", "Block">>)>>,
  ForeachIterator |-> <<S(<<"Identifier", "=", "ForeachIteratorInit">>)>>,
  \* "{" RangeList "}" | RangePiece | Value : ambiguous for a Value starting with "{" or an integer;
  \* strict takes the rule comments' resolution, liberal leaves it open
  ForeachIteratorInit |-> <<S(<<"{", "RangeList", "}">>), L(<<"{", "RangeList", ",", "}">>), S(<<"RangePiece">>), S(<<"ValueNB">>), L(<<"Value">>)>>,
  ValueNB         |-> <<S(<<"InnerNB", "PasteTail">>)>>,
  InnerNB         |-> <<S(<<"SimpleNB", "Suffixes">>)>>,
  SimpleNB        |-> <<S(<<"BinInteger">>), S(<<"String">>), S(<<"Code">>), S(<<"Boolean">>), S(<<"Uninitialized">>), S(<<"List">>),
                       S(<<"Dag">>), S(<<"Identifier">>), S(<<"ClassValue">>), S(<<"BangOperator">>), S(<<"CondOperator">>)>>,
  \* dangling else: strict only generates an else after a braced then-branch
  If              |-> <<S(<<"if", "Value", "then", "Block">>), S(<<"if", "Value", "then", "BracedBlock", "else", "Block">>),
                       L(<<"if", "Value", "then", "Block", "else", "Block">>)>>,
  Assert          |-> <<S(<<"assert", "Value", ",", "Value", ";">>)>>,
  TemplateArgList |-> <<S(<<"<", "TemplateArgDecl", "TemplateArgDecls", ">">>)>>,
  TemplateArgDecls |-> <<S(E), S(<<",", "TemplateArgDecl", "TemplateArgDecls">>), L(<<",">>)>>,
  TemplateArgDecl |-> <<S(<<"Type", "Identifier", "DefaultOpt">>)>>,
  DefaultOpt      |-> <<S(E), S(<<"=", "Value">>)>>,
  RecordBody      |-> <<S(<<"ParentClassList", "Body">>)>>,
  ParentClassList |-> <<S(E), S(<<":", "ClassRef", "ClassRefs">>)>>,
  ClassRefs       |-> <<S(E), S(<<",", "ClassRef", "ClassRefs">>)>>,
  ClassRef        |-> <<S(<<"Identifier", "ClassArgsOpt">>)>>,
  ClassArgsOpt    |-> <<S(E), S(<<"<", "ArgValueList", ">">>)>>,
  \* positional arguments before named ones (the parser's own rule); liberal: any order, trailing ","
  ArgValueList    |-> <<S(E), S(<<"PositionalArgValue", "PosArgs">>), S(<<"NamedArgValue", "NamedArgs">>), L(<<"AnyArg", "AnyArgs">>)>>,
  PosArgs         |-> <<S(E), S(<<",", "PositionalArgValue", "PosArgs">>), S(<<",", "NamedArgValue", "NamedArgs">>)>>,
  NamedArgs       |-> <<S(E), S(<<",", "NamedArgValue", "NamedArgs">>)>>,
  AnyArg          |-> <<L(<<"PositionalArgValue">>), L(<<"NamedArgValue">>)>>,
  AnyArgs         |-> <<L(E), L(<<",", "AnyArg", "AnyArgs">>), L(<<",">>)>>,
  PositionalArgValue |-> <<S(<<"Value">>)>>,
  NamedArgValue   |-> <<S(<<"ArgName", "=", "Value">>), L(<<"Value", "=", "Value">>)>>,
  ArgName         |-> <<S(<<"ArgNameInner">>)>>,
  ArgNameInner    |-> <<S(<<"Identifier">>), S(<<"String">>)>>,
  Body            |-> <<S(<<";">>), S(<<"{", "BodyItems", "}">>)>>,
  BodyItems       |-> <<S(E), S(<<"BodyItem", "BodyItems">>)>>,
  BodyItem        |-> <<S(<<"FieldDef">>), S(<<"FieldLet">>), S(<<"Defvar">>), S(<<"Assert">>), S(<<"Dump">>)>>,
  FieldDef        |-> <<S(<<"FieldKwOpt", "FieldType", "Identifier", "DefaultOpt", ";">>)>>,
  FieldKwOpt      |-> <<S(E), S(<<"field">>)>>,
  FieldType       |-> <<S(<<"Type">>), S(<<"CodeType">>)>>,
  FieldLet        |-> <<S(<<"let", "Identifier", "FieldLetRangeOpt", "=", "Value", ";">>)>>,
  FieldLetRangeOpt |-> <<S(E), S(<<"{", "RangeList", "}">>), L(<<"{", "RangeList", ",", "}">>)>>,
  Type            |-> <<S(<<"BitType">>), S(<<"IntType">>), S(<<"StringType">>), S(<<"DagType">>), S(<<"BitsType">>), S(<<"ListType">>),
                       S(<<"ClassId">>), L(<<"CodeType">>)>>,
  BitType         |-> <<S(<<"bit">>)>>,
  IntType         |-> <<S(<<"int">>)>>,
  StringType      |-> <<S(<<"string">>)>>,
  DagType         |-> <<S(<<"dag">>)>>,
  CodeType        |-> <<S(<<"code">>)>>,
  BitsType        |-> <<S(<<"bits", "<", "DecInteger", ">">>), L(<<"bits", "<", "BinInteger", ">">>)>>,
  ListType        |-> <<S(<<"list", "<", "Type", ">">>)>>,
  ClassId         |-> <<S(<<"Identifier">>)>>,
  Value           |-> <<S(<<"InnerValue", "PasteTail">>)>>,
  PasteTail       |-> <<S(E), S(<<"#", "InnerValue", "PasteTail">>)>>,
  InnerValue      |-> <<S(<<"SimpleValue", "Suffixes">>)>>,
  Suffixes        |-> <<S(E), S(<<"RangeSuffix", "Suffixes">>), S(<<"SliceSuffix", "Suffixes">>), S(<<"FieldSuffix", "Suffixes">>)>>,
  RangeSuffix     |-> <<S(<<"{", "RangeList", "}">>), L(<<"{", "RangeList", ",", "}">>)>>,
  RangeList       |-> <<S(<<"RangePiece", "RangePieces">>)>>,
  RangePieces     |-> <<S(E), S(<<",", "RangePiece", "RangePieces">>)>>,
  \* Integer | Integer "..." Integer | Integer "-" Integer | Integer Integer ("1-3" lexes as two integers).
  \* strict: decimal/hex integers only (LLVM's rule); a binary literal in a range is a liberal reading
  RangePiece      |-> <<S(<<"DecInteger">>), S(<<"DecInteger", "...", "DecInteger">>), S(<<"DecInteger", "-", "DecInteger">>),
                       L(<<"BinInteger">>), L(<<"Integer", "DecInteger">>), L(<<"Integer", "...", "Integer">>), L(<<"Integer", "-", "Integer">>),
                       L(<<"Integer", "BinInteger">>)>>,
  SliceSuffix     |-> <<S(<<"[", "SliceElements", "]">>)>>,
  SliceElements   |-> <<S(<<"SliceElement", "SliceElems">>)>>,
  SliceElems      |-> <<S(E), S(<<",", "SliceElement", "SliceElems">>), S(<<",">>)>>,     \* documented optional trailing ","
  SliceElement    |-> <<S(<<"Value">>), S(<<"Value", "...", "Value">>), S(<<"Value", "-", "Value">>), L(<<"Value", "Value">>)>>,
  FieldSuffix     |-> <<S(<<".", "Identifier">>)>>,
  SimpleValue     |-> <<S(<<"Integer">>), S(<<"String">>), S(<<"Code">>), S(<<"Boolean">>), S(<<"Uninitialized">>), S(<<"Bits">>), S(<<"List">>),
                       S(<<"Dag">>), S(<<"Identifier">>), S(<<"ClassValue">>), S(<<"BangOperator">>), S(<<"CondOperator">>)>>,
  Integer         |-> <<S(<<"INT">>), S(<<"BININT">>)>>,
  DecInteger      |-> <<S(<<"INT">>)>>,
  BinInteger      |-> <<S(<<"BININT">>)>>,
  String          |-> <<S(<<"STR">>), L(<<"STR", "MoreStr">>)>>,
  MoreStr         |-> <<L(<<"STR">>), L(<<"STR", "MoreStr">>)>>,
  Code            |-> <<S(<<"CODE">>)>>,
  Boolean         |-> <<S(<<"true">>), S(<<"false">>)>>,
  Uninitialized   |-> <<S(<<"?">>)>>,
  Bits            |-> <<S(<<"{", "ValueList", "}">>), L(<<"{", "}">>)>>,
  ValueList       |-> <<S(<<"Value", "Values">>)>>,
  Values          |-> <<S(E), S(<<",", "Value", "Values">>), L(<<",">>)>>,
  List            |-> <<S(<<"[", "ValueList", "]">>), L(<<"[", "]">>), L(<<"[", "ValueList", "]", "<", "Type", ">">>), L(<<"[", "]", "<", "Type", ">">>)>>,
  \* the operator of a dag starts with an identifier, "?" or !cast/!getdagop (LLVM's and the code's rule).
  \* Operator and first argument are juxtaposed: a first argument starting with "{", "[" or a string would
  \* read as a suffix of the operator, so the strict reading never generates one (liberal: anything).
  Dag             |-> <<S(<<"(", "DagOperator", "DagRest", ")">>), L(<<"(", "DagArg", "DagArgListOpt", ")">>)>>,
  DagOperator     |-> <<S(<<"DagOpValue", "VarTagOpt">>)>>,
  DagOpValue      |-> <<S(<<"DagOpInner", "PasteTail">>)>>,
  DagOpInner      |-> <<S(<<"DagOpSimple", "Suffixes">>)>>,
  DagOpSimple     |-> <<S(<<"Identifier">>), S(<<"ClassValue">>), S(<<"Uninitialized">>)>>,
  DagRest         |-> <<S(E), S(<<"DagFirstArg", "DagArgs">>)>>,
  DagFirstArg     |-> <<S(<<"ValueSafe", "VarTagOpt">>), S(<<"VARNAME">>)>>,
  ValueSafe       |-> <<S(<<"InnerSafe", "PasteTail">>)>>,
  InnerSafe       |-> <<S(<<"SimpleSafe", "Suffixes">>)>>,
  SimpleSafe      |-> <<S(<<"Integer">>), S(<<"Code">>), S(<<"Boolean">>), S(<<"Uninitialized">>), S(<<"Dag">>), S(<<"Identifier">>),
                       S(<<"ClassValue">>), S(<<"BangOperator">>), S(<<"CondOperator">>)>>,
  DagArgListOpt   |-> <<S(E), S(<<"DagArg", "DagArgs">>)>>,
  DagArgs         |-> <<S(E), S(<<",", "DagArg", "DagArgs">>), L(<<",">>)>>,
  DagArg          |-> <<S(<<"Value", "VarTagOpt">>), S(<<"VARNAME">>)>>,
  VarTagOpt       |-> <<S(E), S(<<":", "VARNAME">>)>>,
  Identifier      |-> <<S(<<"ID">>)>>,
  ClassValue      |-> <<S(<<"Identifier", "<", "ArgValueList", ">">>)>>,
  BangOperator    |-> <<S(<<"BANG", "BangTypeOpt", "(", "ValueList", ")">>), L(<<"BANG", "BangTypeOpt", "(", ")">>)>>,
  BangTypeOpt     |-> <<S(E), S(<<"<", "Type", ">">>)>>,
  CondOperator    |-> <<S(<<"!cond", "(", "CondClause", "CondClauses", ")">>), L(<<"!cond", "(", ")">>)>>,
  CondClauses     |-> <<S(E), S(<<",", "CondClause", "CondClauses">>), L(<<",">>)>>,
  CondClause      |-> <<S(<<"Value", ":", "Value">>)>>
]

NT == DOMAIN AllProd
Prods(n) == SelectSeq(AllProd[n], LAMBDA p : Reading = "liberal" \/ ~p.lib)
ProdSet(n) == {Prods(n)[i] : i \in 1..Len(Prods(n))}
IsNT(s) == s \in NT

(***************************************************************************)
(* Grammatical constituents that the typed syntax tree exposes as a node   *)
(* of its own (value = the node kind).  Pure list wrappers whose brackets  *)
(* may or may not belong to the node (StatementList, Body, ValueList, ...)  *)
(* are deliberately not listed: their elements are compared instead.      *)
(***************************************************************************)
NodeKind == [
  Include |-> "Include", Class |-> "Class", Def |-> "Def", Let |-> "Let", LetItem |-> "LetItem", MultiClass |-> "MultiClass",
  Defm |-> "Defm", Defset |-> "Defset", Defvar |-> "Defvar", Dump |-> "Dump", Foreach |-> "Foreach",
  ForeachIterator |-> "ForeachIterator", If |-> "If", Assert |-> "Assert", TemplateArgDecl |-> "TemplateArgDecl",
  ClassRef |-> "ClassRef", PositionalArgValue |-> "PositionalArgValue", NamedArgValue |-> "NamedArgValue",
  FieldDef |-> "FieldDef", FieldLet |-> "FieldLet", BitType |-> "BitType", IntType |-> "IntType", StringType |-> "StringType",
  DagType |-> "DagType", CodeType |-> "CodeType", BitsType |-> "BitsType", ListType |-> "ListType", ClassId |-> "ClassId",
  Value |-> "Value", NameValue |-> "Value", ValueNB |-> "Value", DagOpValue |-> "Value", ArgName |-> "Value",
  InnerValue |-> "InnerValue", NameInner |-> "InnerValue", InnerNB |-> "InnerValue", DagOpInner |-> "InnerValue", ArgNameInner |-> "InnerValue",
  RangeSuffix |-> "RangeSuffix", RangePiece |-> "RangePiece", SliceSuffix |-> "SliceSuffix", SliceElement |-> "SliceElement",
  FieldSuffix |-> "FieldSuffix", Integer |-> "Integer", DecInteger |-> "Integer", BinInteger |-> "Integer", String |-> "String",
  Code |-> "Code", Boolean |-> "Boolean", Uninitialized |-> "Uninitialized", Bits |-> "Bits", List |-> "List", Dag |-> "Dag",
  DagArg |-> "DagArg", DagOperator |-> "DagArg", DagFirstArg |-> "DagArg", ValueSafe |-> "Value", InnerSafe |-> "InnerValue", Identifier |-> "Identifier", ClassValue |-> "ClassValue",
  BangOperator |-> "BangOperator", CondOperator |-> "CondOperator", CondClause |-> "CondClause"
]
IsNode(n) == n \in DOMAIN NodeKind

(***************************************************************************)
(* Minimal number of terminals derivable from a symbol / a stack (used to  *)
(* bound the automaton by the remaining budget or input).                  *)
(***************************************************************************)
Inf == 10000
Min2(a, b) == IF a < b THEN a ELSE b
RECURSIVE SumLen(_, _)
SumLen(rhs, ml) == IF rhs = <<>> THEN 0
                   ELSE LET h == Head(rhs) IN Min2(Inf, (IF IsNT(h) THEN ml[h] ELSE IF h = "$)" THEN 0 ELSE 1) + SumLen(Tail(rhs), ml))
RECURSIVE MinSet(_)
MinSet(s) == IF s = {} THEN Inf ELSE LET x == CHOOSE y \in s : TRUE IN Min2(x, MinSet(s \ {x}))
RECURSIVE ML(_)
ML(k) == IF k = 0 THEN [n \in NT |-> Inf]       \* TLCEval: force the table, TLC's functions are lazy
         ELSE LET prev == TLCEval(ML(k - 1)) IN TLCEval([n \in NT |-> MinSet({SumLen(p.rhs, prev) : p \in ProdSet(n)})])
\* TLC does not memoise definitions built on RECURSIVE operators: the two tables are computed once,
\* when the ASSUME below is evaluated at start-up, and kept in TLC registers (shared by all workers).
MinLen == TLCGet(101)
MinLenStable == ML(13) = ML(12) /\ \A n \in NT : Prods(n) # <<>> => ML(12)[n] < Inf   \* 12 rounds reach the fixpoint
StackLen(st) == SumLen(st, MinLen)

(***************************************************************************)
(* FIRST sets and nullability (pruning for the recogniser).                *)
(***************************************************************************)
Nullable0(n, ml) == ml[n] = 0
Nullable(n) == MinLen[n] = 0
RECURSIVE FirstOfSeq0(_, _, _)
FirstOfSeq0(rhs, fs, ml) == IF rhs = <<>> THEN {}
                       ELSE LET h == Head(rhs) IN
                            IF IsNT(h) THEN fs[h] \cup (IF ml[h] = 0 THEN FirstOfSeq0(Tail(rhs), fs, ml) ELSE {})
                            ELSE {h}
FirstOfSeq(rhs, fs) == FirstOfSeq0(rhs, fs, MinLen)
RECURSIVE FS(_, _)
FS(k, ml) == IF k = 0 THEN [n \in NT |-> {}]
         ELSE LET prev == TLCEval(FS(k - 1, ml)) IN TLCEval([n \in NT |-> UNION {FirstOfSeq0(p.rhs, prev, ml) : p \in ProdSet(n)}])
First == TLCGet(102)
ASSUME LET ml == TLCEval(ML(12)) IN TLCSet(101, ml) /\ TLCSet(102, TLCEval(FS(12, ml)))
RECURSIVE SeqNullable(_)
SeqNullable(rhs) == rhs = <<>> \/ (IsNT(Head(rhs)) /\ Nullable(Head(rhs)) /\ SeqNullable(Tail(rhs)))
\* can a derivation of rhs (followed by the rest of the stack) start with terminal t ?
CanStart(rhs, rest, t) == t \in FirstOfSeq(rhs \o rest, First)
=============================================================================
