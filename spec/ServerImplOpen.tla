-------------------------- MODULE ServerImplOpen --------------------------
(***************************************************************************)
(* ServerImpl under an open client: instead of one fixed message sequence  *)
(* the client sends didOpen/didChange notifications (N) and requests (R)   *)
(* in any order at any time, up to Len(Msgs) messages (Msgs only bounds    *)
(* the number of tasks here).  TLC explores every message sequence of that *)
(* length interleaved in every way with the server's own steps: deadlock   *)
(* freedom, the ordering invariants of C11 and the liveness of C08 for all *)
(* client histories up to the bound, not for three chosen ones.            *)
(***************************************************************************)
EXTENDS ServerImpl

VARIABLES sentN, sentR
ovars == <<vars, sentN, sentR>>
oview == <<view, sentN, sentR>>

OInit == /\ inbox = <<>> /\ mpc = "idle" /\ vfsW = FALSE /\ vfsR = {} /\ snaps = {} /\ pubLock = 0
         /\ tpc = [t \in Tasks |-> "unborn"] /\ tkind = [t \in Tasks |-> "none"] /\ tleft = [t \in Tasks |-> 0]
         /\ nextTask = 1 /\ rev = 0 /\ trev = [t \in Tasks |-> 0] /\ tver = [t \in Tasks |-> 0] /\ dver = 0
         /\ pubSeq = <<>> /\ answered = 0 /\ processed = 0 /\ sched = <<>>
         /\ sentN = 0 /\ sentR = 0

ClientSend(m) == /\ sentN + sentR < Len(Msgs)
                 /\ inbox' = Append(inbox, m)
                 /\ sentN' = IF m = "N" THEN sentN + 1 ELSE sentN
                 /\ sentR' = IF m = "R" THEN sentR + 1 ELSE sentR
                 /\ UNCHANGED <<mpc, vfsW, vfsR, snaps, pubLock, tpc, tkind, tleft, nextTask, rev, trev, tver, dver, pubSeq, answered, processed, sched>>

Server == (Main \/ \E t \in Tasks : Task(t)) /\ UNCHANGED <<sentN, sentR>>
Idle   == inbox = <<>> /\ mpc = "idle" /\ \A t \in Tasks : tpc[t] \in {"unborn", "done"}
ONext  == (\E m \in {"N", "R"} : ClientSend(m)) \/ Server \/ (Idle /\ UNCHANGED ovars)
OSpec  == OInit /\ [][ONext]_ovars /\ WF_ovars(Main /\ UNCHANGED <<sentN, sentR>>)
                /\ \A t \in Tasks : WF_ovars(Task(t) /\ UNCHANGED <<sentN, sentR>>)

\* C08 for every client history: whatever has been sent is eventually handled, for good once the client stops
AllHandled == <>[](answered = sentR /\ processed = sentN)
\* C11 at every idle point: the last published run saw the final revision (if the last notification's run published at all)
ConvergesWhenIdle == (Idle /\ pubSeq # <<>> /\ sentN > 0) => pubSeq[Len(pubSeq)][2] = rev
=============================================================================
