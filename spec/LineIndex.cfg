SPECIFICATION Spec
CONSTANT MaxLen = 5
INVARIANT Laws
INVARIANT Emit
CHECK_DEADLOCK FALSE
