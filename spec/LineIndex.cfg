SPECIFICATION Spec
CONSTANT MaxLen = 4
INVARIANT Laws
INVARIANT Emit
CHECK_DEADLOCK FALSE
