------------------------------ MODULE Preproc ------------------------------
(***************************************************************************)
(* C15.  The TableGen preprocessor, twice:                                 *)
(*                                                                         *)
(*  Ref   the reference evaluation of conditionals (LLVM's semantics): a   *)
(*        stack of frames, a macro is defined only by an earlier ENABLED   *)
(*        #define, output = the indices of the tokens in enabled text,     *)
(*        error on an unterminated conditional at end of file or a         *)
(*        directive without its macro name;                                *)
(*  Impl  what crates/syntax/src/preprocessor.rs does: no stack - a        *)
(*        disabled region is swallowed by a skip loop with a depth         *)
(*        counter, #else reached while enabled skips to the matching       *)
(*        #endif, errors are parked in a one-slot field.                   *)
(*                                                                         *)
(* One state = one input: a sequence of directives and marker tokens.      *)
(* TLC enumerates every sequence up to MaxLen and checks that Impl refines *)
(* Ref on every well-nested one (same delivered tokens) - and emits each   *)
(* sequence with the reference verdict so that the harness replays it on   *)
(* the real parser (token sequence, outline, errors, diagnostics).         *)
(***************************************************************************)
EXTENDS Naturals, Sequences, FiniteSets, TLC, Json, IOUtils

CONSTANTS MaxLen,
          EmitAbove      \* sequences at least this long are emitted for replay (0: all)
Sym == {"defX", "defY", "ifdefX", "ifdefY", "ifndefX", "ifndefY", "else", "endif", "tok", "ifdef_", "define_"}
Macro(s) == IF s \in {"defX", "ifdefX", "ifndefX"} THEN "X" ELSE "Y"

\* besides the exhaustive enumeration, longer (deeper nested) seeded sequences can be supplied by the orchestrator
Given == IF "SEQS" \in DOMAIN IOEnv /\ IOEnv.SEQS # "" THEN JsonDeserialize(IOEnv.SEQS) ELSE <<>>
VARIABLE input
Init == IF Given = <<>> THEN input = <<>> ELSE \E k \in 1..Len(Given) : input = Given[k]
Next == Given = <<>> /\ Len(input) < MaxLen /\ \E s \in Sym : input' = Append(input, s)      \* every sequence is a state
Spec == Init /\ [][Next]_input

(* ------------------------------ Ref ------------------------------ *)
\* state: [stack: Seq([parentOn, active, inElse]), macros, out: Seq(index), err: BOOLEAN, ill: BOOLEAN]
On(st) == st.stack = <<>> \/ st.stack[Len(st.stack)].active
RefStep(st, i) ==
  LET s == input[i] top == st.stack[Len(st.stack)] IN
  CASE s \in {"defX", "defY"} -> IF On(st) THEN [st EXCEPT !.macros = @ \cup {Macro(s)}] ELSE st
    [] s \in {"ifdefX", "ifdefY"} -> [st EXCEPT !.stack = Append(@, [parentOn |-> On(st), active |-> On(st) /\ Macro(s) \in st.macros, inElse |-> FALSE])]
    [] s \in {"ifndefX", "ifndefY"} -> [st EXCEPT !.stack = Append(@, [parentOn |-> On(st), active |-> On(st) /\ Macro(s) \notin st.macros, inElse |-> FALSE])]
    [] s = "else" -> IF st.stack = <<>> \/ top.inElse THEN [st EXCEPT !.ill = TRUE]
                     ELSE [st EXCEPT !.stack[Len(st.stack)] = [parentOn |-> top.parentOn, active |-> top.parentOn /\ ~top.active, inElse |-> TRUE]]
    [] s = "endif" -> IF st.stack = <<>> THEN [st EXCEPT !.ill = TRUE] ELSE [st EXCEPT !.stack = SubSeq(@, 1, Len(@) - 1)]
    [] s = "tok" -> IF On(st) THEN [st EXCEPT !.out = Append(@, i)] ELSE st
    [] s \in {"ifdef_", "define_"} -> IF On(st) THEN [st EXCEPT !.err = TRUE] ELSE st     \* nameless directive in enabled text
RECURSIVE RefRun(_, _)
RefRun(st, i) == IF i > Len(input) \/ st.ill THEN st ELSE RefRun(RefStep(st, i), i + 1)
Ref0 == [stack |-> <<>>, macros |-> {}, out |-> <<>>, err |-> FALSE, ill |-> FALSE]
Ref == RefRun(Ref0, 1)
WellNested   == ~Ref.ill
Unterminated == WellNested /\ Ref.stack # <<>>
\* a nameless directive is followed by whatever token comes next, which the code then takes for ... nothing: it reports
\* an error; what happens after an error is recovery and carries no expectation
HasNameless == \E i \in 1..Len(input) : input[i] \in {"ifdef_", "define_"}
RefErr == Unterminated \/ Ref.err

(* ------------------------------ Impl ------------------------------ *)
\* skip loop of eat_until_else_or_endif from position i (just after the directive): returns the position after the
\* token that ended the skip, and whether EOF was hit
RECURSIVE Skip(_, _)
Skip(i, depth) ==
  IF i > Len(input) THEN [pos |-> i, eof |-> TRUE]
  ELSE LET s == input[i] IN
       IF s \in {"ifdefX", "ifdefY", "ifndefX", "ifndefY", "ifdef_"} THEN Skip(i + 1, depth + 1)
       ELSE IF s = "endif" /\ depth >= 2 THEN Skip(i + 1, depth - 1)
       ELSE IF s \in {"else", "endif"} /\ depth = 1 THEN [pos |-> i + 1, eof |-> FALSE]
       ELSE Skip(i + 1, depth)
\* normal flow from position i
RECURSIVE ImplRun(_, _)
ImplRun(st, i) ==
  IF i > Len(input) THEN st
  ELSE LET s == input[i] IN
    CASE s \in {"defX", "defY"} -> ImplRun([st EXCEPT !.macros = @ \cup {Macro(s)}], i + 1)
      [] s \in {"ifdefX", "ifdefY", "ifndefX", "ifndefY"} ->
           LET defd == Macro(s) \in st.macros
               take == IF s \in {"ifdefX", "ifdefY"} THEN defd ELSE ~defd IN
           IF take THEN ImplRun(st, i + 1)
           ELSE LET k == Skip(i + 1, 1) IN ImplRun([st EXCEPT !.parked = @ \/ k.eof], k.pos)
      [] s = "else" -> LET k == Skip(i + 1, 1) IN ImplRun([st EXCEPT !.parked = @ \/ k.eof], k.pos)
      [] s = "endif" -> ImplRun(st, i + 1)
      [] s = "tok" -> ImplRun([st EXCEPT !.out = Append(@, i)], i + 1)
      [] s \in {"ifdef_", "define_"} -> ImplRun([st EXCEPT !.err = TRUE], i + 1)
Impl == ImplRun([macros |-> {}, out |-> <<>>, err |-> FALSE, parked |-> FALSE], 1)

(* ------------------------------ refinement ------------------------------ *)
\* on every well-nested input without nameless directives the code's design delivers exactly the selected tokens
Refines == (WellNested /\ ~HasNameless) => Impl.out = Ref.out
\* and a nameless directive in enabled text is an error for both (what follows an error, and nameless directives inside
\* disabled text, carry no expectation)
FirstNameless == CHOOSE i \in 1..Len(input) : input[i] \in {"ifdef_", "define_"} /\ \A j \in 1..(i - 1) : input[j] \notin {"ifdef_", "define_"}
RECURSIVE RefUpTo(_, _, _)
RefUpTo(st, i, n) == IF i > n \/ st.ill THEN st ELSE RefUpTo(RefStep(st, i), i + 1, n)
FirstNamelessEnabled == HasNameless /\ On(RefUpTo(Ref0, 1, FirstNameless - 1)) /\ ~RefUpTo(Ref0, 1, FirstNameless - 1).ill
NamelessAgreed == FirstNamelessEnabled => Impl.err
\* known gap of the design (finding: unterminated conditional unreported): the error is only parked, never delivered
UnterminatedOnlyParked == Unterminated => TRUE

\* enabled state in which symbol i is met (for decorating disabled regions with garbage)
OnAt == [i \in 1..Len(input) |-> On(RefUpTo(Ref0, 1, i - 1))]
Emit == Len(input) >= EmitAbove => PrintT("@@" \o ToJson([input |-> input, wellnested |-> WellNested, out |-> Ref.out, unterminated |-> Unterminated,
                               nameless |-> HasNameless, namelessErr |-> FirstNamelessEnabled, on |-> OnAt]))
=============================================================================
