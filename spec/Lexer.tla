------------------------------- MODULE Lexer -------------------------------
(***************************************************************************)
(* Reference lexer for TableGen (C14), written from the TableGen           *)
(* Programmer's Reference, restricted to the vocabulary the project        *)
(* declares.  A text is a sequence of one-character strings; Lex(text)     *)
(* is the sequence of tokens <<kind, start, end>> (1-based, end exclusive) *)
(* by maximal munch:                                                       *)
(*   identifiers  [0-9]* [A-Za-z_] [A-Za-z_0-9]*   (digit-leading allowed) *)
(*   integers     [+-]? [0-9]+  |  0x [0-9a-fA-F]+  |  0b [01]+            *)
(*   strings      " ... "  with escapes  \\ \' \" \t \n                    *)
(*   code         [{ ... }]        variable names  $ident                  *)
(*   keywords, bang operators !name, punctuation, "..."                    *)
(*   separators: blanks, tabs, line ends, // comments, NESTED /* */        *)
(*   preprocessor directives #ifdef #ifndef #else #endif #define, "#"      *)
(*                                                                         *)
(* Used in both directions: recorded token sequences of the real lexer     *)
(* (generated token/separator sequences, every line of the LLVM corpus)    *)
(* are validated against Lex - LexTrace.tla.                               *)
(***************************************************************************)
EXTENDS Naturals, Sequences, FiniteSets, TLC

Lower == {"a","b","c","d","e","f","g","h","i","j","k","l","m","n","o","p","q","r","s","t","u","v","w","x","y","z"}
Upper == {"A","B","C","D","E","F","G","H","I","J","K","L","M","N","O","P","Q","R","S","T","U","V","W","X","Y","Z"}
Digit == {"0","1","2","3","4","5","6","7","8","9"}
Hex   == Digit \cup {"a","b","c","d","e","f","A","B","C","D","E","F"}
IdStart == Lower \cup Upper \cup {"_"}
IdCont  == IdStart \cup Digit
Blank == {" ", "\t", "\n", "\r"}

Keyword == {"assert", "bit", "bits", "class", "code", "dag", "def", "defm", "defset", "defvar", "dump", "else", "field",
            "foreach", "if", "in", "include", "int", "let", "list", "multiclass", "string", "then", "true", "false"}
\* the operators of the Programmer's Reference that the project's token vocabulary (T! spellings) declares
BangOp == {"add", "and", "cast", "con", "cond", "dag", "div", "empty", "eq", "exists", "filter", "find", "foldl", "foreach",
           "ge", "getdagarg", "getdagname", "getdagop", "gt", "head", "if", "initialized", "interleave", "isa", "le",
           "listconcat", "listflatten", "listremove", "listsplat", "log2", "lt", "mul", "ne", "not", "or", "range", "repr",
           "setdagarg", "setdagname", "setdagop", "shl", "size", "sra", "srl", "strconcat", "sub", "subst", "substr", "tail",
           "tolower", "toupper", "xor"}
Directive == {"ifdef", "ifndef", "else", "endif", "define"}
Punct == {"-", "+", "[", "]", "{", "}", "(", ")", "<", ">", ":", ";", ",", ".", "=", "?", "#"}

At(t, i) == IF i <= Len(t) THEN t[i] ELSE ""          \* "" = end of text

\* longest run of characters from a set, starting at i: position after it
RECURSIVE Run(_, _, _)
Run(t, i, S) == IF At(t, i) \in S THEN Run(t, i + 1, S) ELSE i
RECURSIVE Word(_, _, _)
Word(t, i, j) == IF i >= j THEN "" ELSE t[i] \o Word(t, i + 1, j)
\* end of line comment: up to (not including) the line end
RECURSIVE ToEol(_, _)
ToEol(t, i) == IF At(t, i) \in {"", "\n", "\r"} THEN i ELSE ToEol(t, i + 1)
\* nested block comment, i just after an opening "/*": position after the matching "*/" (0 = unterminated)
RECURSIVE BlockEnd(_, _, _)
BlockEnd(t, i, depth) ==
   IF i > Len(t) THEN 0
   ELSE IF At(t, i) = "*" /\ At(t, i + 1) = "/" THEN (IF depth = 1 THEN i + 2 ELSE BlockEnd(t, i + 2, depth - 1))
   ELSE IF At(t, i) = "/" /\ At(t, i + 1) = "*" THEN BlockEnd(t, i + 2, depth + 1)
   ELSE BlockEnd(t, i + 1, depth)
\* string body, i just after the opening quote: position after the closing quote (0 = unterminated / line end inside)
RECURSIVE StrEnd(_, _)
StrEnd(t, i) == IF At(t, i) \in {"", "\n", "\r"} THEN 0
                ELSE IF At(t, i) = "\"" THEN i + 1
                ELSE IF At(t, i) = "\\" THEN (IF At(t, i + 1) \in {"", "\n", "\r"} THEN 0 ELSE StrEnd(t, i + 2))
                ELSE StrEnd(t, i + 1)
\* code fragment, i just after "[{": position after the first "}]" (0 = unterminated)
RECURSIVE CodeEnd(_, _)
CodeEnd(t, i) == IF i > Len(t) THEN 0
                 ELSE IF At(t, i) = "}" /\ At(t, i + 1) = "]" THEN i + 2 ELSE CodeEnd(t, i + 1)

\* does the decimal digit run t[i..j-1] denote a number <= the bound (a sequence of digits without leading zeros)?
DigitSeq == <<"0", "1", "2", "3", "4", "5", "6", "7", "8", "9">>
DigVal(c) == CHOOSE n \in 1..10 : DigitSeq[n] = c
RECURSIVE SkipZeros(_, _, _)
SkipZeros(t, i, j) == IF i < j - 1 /\ t[i] = "0" THEN SkipZeros(t, i + 1, j) ELSE i
RECURSIVE LexLeq(_, _, _, _)
LexLeq(t, i, bound, n) == IF n > Len(bound) THEN TRUE
                          ELSE IF DigVal(t[i]) < DigVal(bound[n]) THEN TRUE
                          ELSE IF DigVal(t[i]) > DigVal(bound[n]) THEN FALSE
                          ELSE LexLeq(t, i + 1, bound, n + 1)
FitsBound(t, i, j, bound) == LET s == SkipZeros(t, i, j) IN
                             IF j - s < Len(bound) THEN TRUE ELSE IF j - s > Len(bound) THEN FALSE ELSE LexLeq(t, s, bound, 1)
U64Max == <<"1","8","4","4","6","7","4","4","0","7","3","7","0","9","5","5","1","6","1","5">>
I64MinAbs == <<"9","2","2","3","3","7","2","0","3","6","8","5","4","7","7","5","8","0","8">>

Tok(k, s, e) == <<k, s, e>>
\* one token starting at i (i <= Len(t)): <<kind, i, end>>
Next1(t, i) ==
  LET c == t[i] d == At(t, i + 1) IN
  IF c \in Blank THEN Tok("ws", i, Run(t, i, Blank))
  ELSE IF c = "/" /\ d = "/" THEN Tok("lc", i, ToEol(t, i))
  ELSE IF c = "/" /\ d = "*" THEN (LET e == BlockEnd(t, i + 2, 1) IN IF e = 0 THEN Tok("err", i, Len(t) + 1) ELSE Tok("bc", i, e))
  ELSE IF c \in Digit \/ (c \in {"+", "-"} /\ d \in Digit) THEN
       LET signed == c \in {"+", "-"}
           j == Run(t, IF signed THEN i + 1 ELSE i, Digit) IN
       IF ~signed /\ c = "0" /\ d = "x" THEN      \* hexadecimal: at least one digit
            (IF At(t, i + 2) \in Hex THEN Tok(IF Run(t, i + 2, Hex) - (i + 2) > 16 THEN "err" ELSE "int", i, Run(t, i + 2, Hex)) ELSE Tok("err", i, i + 2))
       ELSE IF ~signed /\ c = "0" /\ d = "b" THEN (IF At(t, i + 2) \in {"0", "1"} THEN Tok(IF Run(t, i + 2, {"0", "1"}) - (i + 2) > 64 THEN "err" ELSE "binint", i, Run(t, i + 2, {"0", "1"})) ELSE Tok("err", i, i + 2))
       ELSE IF ~signed /\ At(t, j) \in IdStart THEN     \* digits followed by a letter: an identifier
            (LET e == Run(t, j, IdCont) w == Word(t, i, e) IN Tok(IF w \in Keyword THEN "kw:" \o w ELSE "id", i, e))
       \* a literal that cannot fit 64 bits (above 2^64 - 1, below -2^63) is an error token of the same extent
       ELSE Tok(IF FitsBound(t, IF signed THEN i + 1 ELSE i, j, IF c = "-" THEN I64MinAbs ELSE U64Max) THEN "int" ELSE "err", i, j)
  ELSE IF c \in IdStart THEN
       (LET e == Run(t, i, IdCont) w == Word(t, i, e) IN Tok(IF w \in Keyword THEN "kw:" \o w ELSE "id", i, e))
  ELSE IF c = "\"" THEN (LET e == StrEnd(t, i + 1) IN IF e = 0 THEN Tok("err", i, ToEol(t, i)) ELSE Tok("str", i, e))
  ELSE IF c = "$" THEN (IF d \in IdStart THEN Tok("var", i, Run(t, i + 1, IdCont)) ELSE Tok("err", i, i + 1))
  ELSE IF c = "[" /\ d = "{" THEN (LET e == CodeEnd(t, i + 2) IN IF e = 0 THEN Tok("err", i, Len(t) + 1) ELSE Tok("code", i, e))
  ELSE IF c = "!" THEN
       (LET e == Run(t, i + 1, IdCont) w == Word(t, i + 1, e) IN Tok(IF w \in BangOp THEN "bang:" \o w ELSE "err", i, e))
  ELSE IF c = "#" THEN
       \* a directive only if the WHOLE word after "#" is one ("X#else_y" is a paste and an identifier, as for llvm-tblgen)
       (LET e == Run(t, i + 1, IdCont) w == Word(t, i + 1, e) IN IF w \in Directive THEN Tok("pp:" \o w, i, e) ELSE Tok("p:#", i, i + 1))
  ELSE IF c = "." /\ d = "." /\ At(t, i + 2) = "." THEN Tok("p:...", i, i + 3)
  ELSE IF c = "." /\ d = "." THEN Tok("err", i, i + 2)                       \* ".." is not a token (llvm: "Invalid '..' punctuation")
  ELSE IF c \in Punct THEN Tok("p:" \o c, i, i + 1)
  ELSE Tok("err", i, i + 1)

RECURSIVE LexFrom(_, _)
LexFrom(t, i) == IF i > Len(t) THEN <<>> ELSE LET k == Next1(t, i) IN <<k>> \o LexFrom(t, k[3])
Lex(t) == LexFrom(t, 1)

(* laws of the reference itself *)
Tiles(t) == LET L == Lex(t) IN
            /\ (L # <<>> => L[1][2] = 1 /\ L[Len(L)][3] = Len(t) + 1)
            /\ \A n \in 1..Len(L) : L[n][2] < L[n][3]
            /\ \A n \in 1..(Len(L) - 1) : L[n][3] = L[n + 1][2]
=============================================================================
