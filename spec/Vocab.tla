------------------------------- MODULE Vocab -------------------------------
(***************************************************************************)
(* C20: the completion vocabulary is closed under the server's own lexer   *)
(* and parser.  One observation record r (written by the harness from the  *)
(* running code) holds three tables:                                       *)
(*   r.bangCtx    per "!"-context: the words offered with trigger "!"      *)
(*   r.offered    words offered as top-level keywords / types / values     *)
(*   r.lex        word -> canonical kind the REAL lexer gives it           *)
(*                ("!w" for operators), for every offered word and every   *)
(*                operator of the reference table                          *)
(*   r.parses     statement keyword -> does a minimal statement starting   *)
(*                with it parse without error                              *)
(*   r.classCases per parent-class position of a generated program: labels *)
(*                and placeholder counts offered vs the classes declared   *)
(* The closure invariants below are evaluated by TLC on the record; each   *)
(* violated instance is reported by name.                                  *)
(***************************************************************************)
EXTENDS Naturals, Sequences, FiniteSets, TLC, Json, IOUtils, Lexer

Rec == ndJsonDeserialize(IOEnv.TRACE)
ToSetOf(s) == {s[i] : i \in 1..Len(s)}
Kind(r, w) == IF w \in DOMAIN r.lex THEN r.lex[w] ELSE "?"

\* operators the real lexer accepts: searched over the reference table of Lexer.tla, everything offered, and the probed candidate
\* spellings (r.lexerOps: every probed word the lexer takes as SOME operator, e.g. a deprecated alias of one)
LexerBang(r) == {w \in BangOp \cup UNION {ToSetOf(r.bangCtx[i].offered) : i \in 1..Len(r.bangCtx)} : Kind(r, "!" \o w) = "bang:" \o w}
                \cup ToSetOf(r.lexerOps)

Findings(r) ==
  \* every operator offered after "!" is lexed as exactly that operator
  UNION {{<<"offered-operator-not-lexed-as-operator", w, r.bangCtx[i].ctx>> :
            w \in {x \in ToSetOf(r.bangCtx[i].offered) : Kind(r, "!" \o x) # "bang:" \o x}} : i \in 1..Len(r.bangCtx)}
  \cup
  \* every operator the lexer accepts is offered after "!", whatever follows the "!"
  UNION {{<<"lexer-operator-not-offered", w, r.bangCtx[i].ctx>> : w \in LexerBang(r) \ ToSetOf(r.bangCtx[i].offered)} : i \in 1..Len(r.bangCtx)}
  \cup
  \* keywords, types and values are lexed as themselves, never as an identifier or an error
  {<<"offered-word-not-lexed-as-keyword", w, "">> : w \in {x \in ToSetOf(r.offered.keywords) \cup ToSetOf(r.offered.types) \cup ToSetOf(r.offered.values) :
                                                               Kind(r, x) # "kw:" \o x}}
  \cup
  \* every statement keyword offered at file level starts a statement the parser accepts
  {<<"offered-keyword-starts-no-accepted-statement", w, "">> : w \in {x \in ToSetOf(r.offered.keywords) : ~(x \in DOMAIN r.parses /\ r.parses[x])}}
  \cup
  \* class completion in a parent-class position: exactly the classes of the workspace, one placeholder per template parameter
  {<<"class-labels-differ", r.classCases[i].prog, r.classCases[i].pos>> :
       i \in {k \in 1..Len(r.classCases) : r.classCases[k].labels # r.classCases[k].classes}}
  \cup
  UNION {{<<"placeholders-differ-from-template-parameters", r.classCases[i].prog, r.classCases[i].offered[j][1]>> :
            j \in {k \in 1..Len(r.classCases[i].offered) :
                     \E c \in 1..Len(r.classCases[i].declared) : r.classCases[i].declared[c][1] = r.classCases[i].offered[k][1]
                                                                  /\ r.classCases[i].declared[c][2] # r.classCases[i].offered[k][2]}}
         : i \in 1..Len(r.classCases)}

VARIABLE l
Init == l = 1
Next == l <= Len(Rec) /\ PrintT("@@" \o ToJson([findings |-> Findings(Rec[l])])) /\ l' = l + 1
Spec == Init /\ [][Next]_l
AllConsumed == TLCGet("stats").diameter = Len(Rec) + 1
=============================================================================
