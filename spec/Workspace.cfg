SPECIFICATION Spec
CONSTANTS
  WNames = {"a", "b"}
  INames = {"b"}
  Name = {"a", "b", "z"}
  MaxInc = 2
  MaxSteps = 0
INVARIANT RootInWorkspace
INVARIANT ReachClosed
INVARIANT Emit
CHECK_DEADLOCK FALSE
