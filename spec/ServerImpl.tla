----------------------------- MODULE ServerImpl -----------------------------
(***************************************************************************)
(* Implementation-shaped model of crates/lsp/src/server.rs: the async-lsp  *)
(* main loop (single thread, &mut Server) and the spawn_blocking tasks it  *)
(* starts, synchronising through                                           *)
(*   - the file-table lock      Arc<RwLock<Vfs>>                           *)
(*   - the salsa revision lock  (shared by every snapshot for its whole    *)
(*                               life, exclusive for every input write)    *)
(*   - the published-files mutex (held by a diagnostics task while it      *)
(*                               publishes)                                *)
(* One action per schedule point of the cfg(tablegen_lsp_verif) hooks      *)
(* ("thread X arrives at hook P and passes it"); the guard of an action    *)
(* says when the code segment before P can complete.  A behaviour          *)
(* projects to a schedule <<who, point>>* that the harness replays on the  *)
(* real server under its controlled scheduler (C08), and the hook log of   *)
(* the real server is a trace of this model (MODEL-DRIFT check).           *)
(*                                                                         *)
(* Variant = "snapshot-copy" : the code as it is now (tasks own a private  *)
(*           copy of the file table made when they are spawned)            *)
(* Variant = "shared-lock"   : the code before the deadlock fix (tasks     *)
(*           take the file-table read lock part-way): TLC finds the        *)
(*           deadlock at depth 5 - kept as a witness that the model can    *)
(*           express the defect.                                           *)
(***************************************************************************)
EXTENDS Naturals, Sequences, FiniteSets, TLC, Json

CONSTANTS Msgs,        \* the client's message sequence, e.g. <<"N", "R", "N">>  (N = didOpen/didChange, R = a request)
          NFiles,      \* files a diagnostics task publishes for
          Variant,
          SplitEnd     \* TRUE: the closure's return (drop of snapshot and mutex guard) and run_task's end report are two steps, as in the
                       \* code; FALSE: one step (coarser, fewer interleavings: used to enumerate schedules, whose points are the hooks)

Tasks == 1..Len(Msgs)                    \* every message spawns exactly one task

VARIABLES inbox,       \* messages not yet read by the main loop
          mpc,         \* main loop: which hook it passes next
          vfsW, vfsR,  \* file-table lock: writer flag, set of reader tasks
          snaps,       \* tasks owning a database snapshot (= sharing the salsa revision lock)
          pubLock,     \* 0 or the diagnostics task holding the published-files mutex
          tpc, tkind, tleft,   \* per task: next hook, "diag" | "req", publishes left
          nextTask,
          rev,         \* database revision (bumped by every input write)
          trev,        \* revision a task's snapshot was taken at
          tver,        \* diagnostics version a task carries
          dver,        \* the server's diagnostic_version counter
          pubSeq,      \* sequence of <<version, revision>> published so far
          answered, processed,
          sched        \* history: the schedule so far (hidden by the VIEW)
vars == <<inbox, mpc, vfsW, vfsR, snaps, pubLock, tpc, tkind, tleft, nextTask, rev, trev, tver, dver, pubSeq, answered, processed, sched>>
view == <<inbox, mpc, vfsW, vfsR, snaps, pubLock, tpc, tkind, tleft, nextTask, rev, trev, tver, dver, pubSeq, answered, processed>>

Shared == Variant = "shared-lock"
Who(t) == "task" \o ToString(t)
Log(w, p) == sched' = Append(sched, <<w, p>>)

Init == /\ inbox = Msgs /\ mpc = "idle" /\ vfsW = FALSE /\ vfsR = {} /\ snaps = {} /\ pubLock = 0
        /\ tpc = [t \in Tasks |-> "unborn"] /\ tkind = [t \in Tasks |-> "none"] /\ tleft = [t \in Tasks |-> 0]
        /\ nextTask = 1 /\ rev = 0 /\ trev = [t \in Tasks |-> 0] /\ tver = [t \in Tasks |-> 0] /\ dver = 0
        /\ pubSeq = <<>> /\ answered = 0 /\ processed = 0 /\ sched = <<>>

UNCH(vs) == UNCHANGED vs

(* ------------------------------ main loop ------------------------------ *)
\* did_open / did_change entered                                  hook main.notif_enter
MNotifEnter == /\ mpc = "idle" /\ inbox # <<>> /\ Head(inbox) = "N"
               /\ inbox' = Tail(inbox) /\ mpc' = "want_w" /\ Log("main", "notif_enter")
               /\ UNCH(<<vfsW, vfsR, snaps, pubLock, tpc, tkind, tleft, nextTask, rev, trev, tver, dver, pubSeq, answered, processed>>)
\* self.vfs.write() acquired                                       hook main.vfs_w_acquired
MAcquireW == /\ mpc = "want_w" /\ ~vfsW /\ vfsR = {}
             /\ vfsW' = TRUE /\ mpc' = "set_content" /\ Log("main", "vfs_w_acquired")
             /\ UNCH(<<inbox, vfsR, snaps, pubLock, tpc, tkind, tleft, nextTask, rev, trev, tver, dver, pubSeq, answered, processed>>)
\* host.set_file_content returned: a salsa input write waits until no snapshot is alive      hook main.content_set
MSetContent == /\ mpc = "set_content" /\ snaps = {}
               /\ rev' = rev + 1 /\ mpc' = "set_root" /\ Log("main", "content_set")
               /\ UNCH(<<inbox, vfsW, vfsR, snaps, pubLock, tpc, tkind, tleft, nextTask, trev, tver, dver, pubSeq, answered, processed>>)
\* host.set_root_file returned (more input writes)                 hook main.root_set
MSetRoot == /\ mpc = "set_root" /\ snaps = {}
            /\ rev' = rev + 1 /\ mpc' = "release_w" /\ Log("main", "root_set")
            /\ UNCH(<<inbox, vfsW, vfsR, snaps, pubLock, tpc, tkind, tleft, nextTask, trev, tver, dver, pubSeq, answered, processed>>)
\* write guard dropped                                             hook main.vfs_w_released
MReleaseW == /\ mpc = "release_w"
             /\ vfsW' = FALSE /\ mpc' = "spawn_diag" /\ Log("main", "vfs_w_released")
             /\ UNCH(<<inbox, vfsR, snaps, pubLock, tpc, tkind, tleft, nextTask, rev, trev, tver, dver, pubSeq, answered, processed>>)
Spawn(kind) == /\ snaps' = snaps \cup {nextTask}
               /\ tpc' = [tpc EXCEPT ![nextTask] = "start"] /\ tkind' = [tkind EXCEPT ![nextTask] = kind]
               /\ tleft' = [tleft EXCEPT ![nextTask] = IF kind = "diag" THEN NFiles ELSE 0]
               /\ trev' = [trev EXCEPT ![nextTask] = rev]
               /\ nextTask' = nextTask + 1 /\ Log("main", "spawn")
\* update_diagnostics: bump the version, snapshot, spawn_blocking  hook main.spawn
MSpawnDiag == /\ mpc = "spawn_diag" /\ Spawn("diag")
              /\ tver' = [tver EXCEPT ![nextTask] = dver] /\ dver' = dver + 1 /\ mpc' = "exit"
              /\ UNCH(<<inbox, vfsW, vfsR, pubLock, rev, pubSeq, answered, processed>>)
\* handler returns                                                  hook main.notif_exit
MNotifExit == /\ mpc = "exit" /\ mpc' = "idle" /\ processed' = processed + 1 /\ Log("main", "notif_exit")
              /\ UNCH(<<inbox, vfsW, vfsR, snaps, pubLock, tpc, tkind, tleft, nextTask, rev, trev, tver, dver, pubSeq, answered>>)
\* a request: snapshot + spawn_blocking, the main loop goes on       hook main.spawn
MSpawnReq == /\ mpc = "idle" /\ inbox # <<>> /\ Head(inbox) = "R"
             /\ inbox' = Tail(inbox) /\ Spawn("req") /\ mpc' = "idle"
             /\ UNCH(<<vfsW, vfsR, pubLock, rev, tver, dver, pubSeq, answered, processed>>)
Main == MNotifEnter \/ MAcquireW \/ MSetContent \/ MSetRoot \/ MReleaseW \/ MSpawnDiag \/ MNotifExit \/ MSpawnReq

(* -------------------------------- tasks -------------------------------- *)
\* the blocking thread starts running the closure                   hook task.start
\* ("shared-lock": from here the task needs the file-table read lock before it can go on)
TStart(t) == /\ tpc[t] = "start"
             /\ tpc' = [tpc EXCEPT ![t] = IF Shared THEN "want_r" ELSE IF tkind[t] = "diag" THEN "want_pub" ELSE "finish"]
             /\ Log(Who(t), "start")
             /\ UNCH(<<inbox, mpc, vfsW, vfsR, snaps, pubLock, tkind, tleft, nextTask, rev, trev, tver, dver, pubSeq, answered, processed>>)
\* only "shared-lock": std RwLock - readers wait while a writer holds   (no hook: internal)
TAcquireR(t) == /\ tpc[t] = "want_r" /\ ~vfsW
                /\ vfsR' = vfsR \cup {t} /\ tpc' = [tpc EXCEPT ![t] = "have_r"]
                /\ UNCH(<<inbox, mpc, vfsW, snaps, pubLock, tkind, tleft, nextTask, rev, trev, tver, dver, pubSeq, answered, processed, sched>>)
TReleaseR(t) == /\ tpc[t] = "have_r"
                /\ vfsR' = vfsR \ {t} /\ tpc' = [tpc EXCEPT ![t] = IF tkind[t] = "diag" THEN "want_pub" ELSE "finish"]
                /\ UNCH(<<inbox, mpc, vfsW, snaps, pubLock, tkind, tleft, nextTask, rev, trev, tver, dver, pubSeq, answered, processed, sched>>)
\* diagnostics() computed, published-files mutex taken, about to publish for the next file    hook task.publish
\* ("early-release": a second witness variant - the task gives up its snapshot and the mutex once diagnostics() is computed and
\*  publishes afterwards, as a seeded change did; TLC then finds VersionsMonotone violated: the invariant depends on the barrier)
TEarlyRelease(t) == /\ Variant = "early-release" /\ tpc[t] = "want_pub" /\ t \in snaps
                    /\ snaps' = snaps \ {t}
                    /\ UNCH(<<inbox, mpc, vfsW, vfsR, pubLock, tpc, tkind, tleft, nextTask, rev, trev, tver, dver, pubSeq, answered, processed, sched>>)
TPublish(t) == /\ tpc[t] = "want_pub" /\ tleft[t] > 0 /\ (Variant = "early-release" \/ pubLock \in {0, t})
               /\ (Variant = "early-release" => t \notin snaps)
               /\ pubLock' = (IF Variant = "early-release" THEN pubLock ELSE t) /\ tleft' = [tleft EXCEPT ![t] = @ - 1]
               /\ pubSeq' = Append(pubSeq, <<tver[t], trev[t]>>) /\ Log(Who(t), "publish")
               /\ UNCH(<<inbox, mpc, vfsW, vfsR, snaps, tpc, tkind, nextTask, rev, trev, tver, dver, answered, processed>>)
\* the loop over the files to publish for ends   (no hook: internal; the trace specification completes a run after any number of publishes)
TPubDone(t) == /\ tpc[t] = "want_pub" /\ tleft[t] = 0
               /\ tpc' = [tpc EXCEPT ![t] = "finish"]
               /\ UNCH(<<inbox, mpc, vfsW, vfsR, snaps, pubLock, tkind, tleft, nextTask, rev, trev, tver, dver, pubSeq, answered, processed, sched>>)
\* the closure returns: the snapshot and the mutex guard it owns are dropped    (no hook: run_task reports the end afterwards)
TDrop(t) == /\ SplitEnd /\ tpc[t] = "finish"
            /\ tpc' = [tpc EXCEPT ![t] = "dropped"] /\ snaps' = snaps \ {t}
            /\ pubLock' = IF pubLock = t THEN 0 ELSE pubLock
            /\ UNCH(<<inbox, mpc, vfsW, vfsR, tkind, tleft, nextTask, rev, trev, tver, dver, pubSeq, answered, processed, sched>>)
\* run_task reports the end of the task; the response (if any) is on its way        hook task.end
TEnd(t) == /\ tpc[t] = IF SplitEnd THEN "dropped" ELSE "finish"
           /\ tpc' = [tpc EXCEPT ![t] = "done"]
           /\ snaps' = snaps \ {t} /\ pubLock' = IF pubLock = t THEN 0 ELSE pubLock        \* no change when TDrop has run
           /\ answered' = IF tkind[t] = "req" THEN answered + 1 ELSE answered
           /\ Log(Who(t), "end")
           /\ UNCH(<<inbox, mpc, vfsW, vfsR, tkind, tleft, nextTask, rev, trev, tver, dver, pubSeq, processed>>)
Task(t) == TStart(t) \/ TAcquireR(t) \/ TReleaseR(t) \/ TEarlyRelease(t) \/ TPublish(t) \/ TPubDone(t) \/ TDrop(t) \/ TEnd(t)

Done == inbox = <<>> /\ mpc = "idle" /\ \A t \in Tasks : tpc[t] = "done"
Next == Main \/ (\E t \in Tasks : Task(t)) \/ (Done /\ UNCHANGED vars)
Spec == Init /\ [][Next]_vars /\ WF_vars(Main) /\ \A t \in Tasks : WF_vars(Task(t))

(* ------------------------------ properties ------------------------------ *)
NumReqs   == Cardinality({i \in 1..Len(Msgs) : Msgs[i] = "R"})
NumNotifs == Cardinality({i \in 1..Len(Msgs) : Msgs[i] = "N"})
\* C08: every request is answered and every notification processed (liveness; plus TLC's deadlock check)
EveryRequestAnswered == <>(answered = NumReqs /\ processed = NumNotifs)
\* C11 (why it holds): the salsa write barrier serialises diagnostics runs, so versions are published in order
VersionsMonotone == \A i, j \in 1..Len(pubSeq) : i < j => pubSeq[i][1] <= pubSeq[j][1]
\* ... and at quiescence the last run published the final revision
ConvergesAtQuiescence == (Done /\ pubSeq # <<>>) => pubSeq[Len(pubSeq)][2] = rev
\* a task never outlives an input write: whatever a snapshot sees is one consistent revision
SnapshotsAreCurrent == \A t \in snaps : trev[t] = rev
\* lock order (why there is no deadlock): whoever waits for the salsa barrier holds nothing a snapshot owner needs
NoLockInversion == (mpc \in {"set_content", "set_root"} /\ Variant = "snapshot-copy") => \A t \in snaps : tpc[t] # "want_r"

EmitSchedule == Done => PrintT("@@" \o ToJson([msgs |-> Msgs, sched |-> sched]))
=============================================================================
