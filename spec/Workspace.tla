----------------------------- MODULE Workspace -----------------------------
(***************************************************************************)
(* Reference model of the ide-level workspace (C16 include graphs, C07     *)
(* incremental consistency).                                               *)
(*                                                                         *)
(* A file lives in the root directory "w" or in the include directory      *)
(* "inc" and is named  dir/name.  Its text is a version                    *)
(*     [k, incs, faulty]                                                    *)
(* k identifies the text (marker class M_<dir>_<name>_<k> in its outline), *)
(* incs is the sequence of NAMES it includes (textual order, duplicates    *)
(* allowed), faulty says whether it uses an undefined class.  An include   *)
(* of name n in file d/x resolves to d/n if that exists, else to inc/n if  *)
(* that exists, else it is not found.                                      *)
(*                                                                         *)
(* Everything observable is a function of (fs, root):                      *)
(*   Reach      files of the workspace                                     *)
(*   Links(f)   per include statement of f: the file it links to or ""     *)
(*   one not-found diagnostic per unresolvable include statement           *)
(*   Outline(f) the marker of f's current text, once (also when f is       *)
(*              reached along several paths or through a cycle)            *)
(* which is exactly C07: results never depend on the edit history.  The    *)
(* history actions mirror what a client of AnalysisHost does.              *)
(***************************************************************************)
EXTENDS Naturals, Integers, Sequences, FiniteSets, TLC, Json

CONSTANTS WNames,        \* names of the files of the root directory "w", e.g. {"a", "b"}
          INames,        \* names of the files of the include directory "inc", e.g. {"b"}
          Name,          \* names that can be included, e.g. {"a", "b", "z"} (z: exists nowhere)
          MaxInc,        \* include statements per text
          MaxSteps       \* history length (0: graphs only)
File == {<<"w", n>> : n \in WNames} \cup {<<"inc", n>> : n \in INames}     \* a file is <<directory, name>>
Missing == [k |-> -1, incs |-> <<>>, faulty |-> FALSE]
None == <<"", "">>

VARIABLES fs0, root0,    \* the initial file system (the include graph) and root
          fs,            \* File -> version | Missing
          root,          \* File
          hist           \* actions so far, each with the expected observation after it
vars == <<fs0, root0, fs, root, hist>>

Exists(F, f) == f \in File /\ F[f] # Missing
Resolve(F, f, n) == IF Exists(F, <<f[1], n>>) THEN <<f[1], n>>
                    ELSE IF Exists(F, <<"inc", n>>) THEN <<"inc", n>> ELSE None
Range(s) == {s[i] : i \in 1..Len(s)}
Targets(F, f) == {Resolve(F, f, n) : n \in Range(F[f].incs)} \ {None}
RECURSIVE ReachN(_, _, _)
ReachN(F, S, n) == IF n = 0 THEN S ELSE ReachN(F, S \cup UNION {Targets(F, f) : f \in S}, n - 1)
Reach(F, r) == ReachN(F, {r}, Cardinality(File))
Links(F, f) == [i \in 1..Len(F[f].incs) |-> Resolve(F, f, F[f].incs[i])]
\* the observation, as a set of per-file records (JSON friendly)
Obs(F, r) == [root |-> r,
              files |-> {[file |-> f, k |-> F[f].k, incs |-> F[f].incs, links |-> Links(F, f), faulty |-> F[f].faulty] : f \in Reach(F, r)}]

IncChoices == UNION {[1..n -> Name] : n \in 0..MaxInc}
Versions(k) == {[k |-> k, incs |-> i, faulty |-> fa] : i \in IncChoices, fa \in BOOLEAN}

\* C16: every include graph - every assignment of (missing | include list) to every file, every existing root
Init == /\ fs0 \in [File -> {Missing} \cup {[k |-> 0, incs |-> i, faulty |-> FALSE] : i \in IncChoices}]
        /\ fs = fs0
        /\ root \in {f \in File : fs0[f] # Missing /\ f[1] = "w"}
        /\ root0 = root
        /\ hist = <<>>

\* C07: what a client of AnalysisHost does
Step == Len(hist) + 1
Rec(a, F, r) == hist' = Append(hist, [act |-> a, obs |-> Obs(F, r)])
\* write the text of f (file system and database) and make f the root: the only thing the server ever does
Touch(f, v)  == /\ f[1] = "w" /\ fs' = [fs EXCEPT ![f] = v] /\ root' = f
                /\ Rec([a |-> "Touch", file |-> f, v |-> v], fs', f)
\* make an existing file the root, with the text the file system has for it
Reroot(f)    == /\ f[1] = "w" /\ fs[f] # Missing /\ root' = f /\ UNCHANGED fs
                /\ Rec([a |-> "Reroot", file |-> f], fs, f)
\* the file system changes behind the analysis' back, then the root is set again (stale results in between are by design)
DiskThenReroot(f, v) == /\ f # root /\ fs' = [fs EXCEPT ![f] = v] /\ UNCHANGED root
                        /\ Rec([a |-> "DiskThenReroot", file |-> f, v |-> v], fs', root)
\* a file may also go back to a text it had before (undo, branch switch): exactly the same version record, marker included
Past(f) == ({fs0[f]} \cup {hist[i].act.v : i \in {j \in 1..Len(hist) : hist[j].act.a # "Reroot" /\ hist[j].act.file = f}}) \ {Missing}
Next == /\ Len(hist) < MaxSteps
        /\ UNCHANGED <<fs0, root0>>
        /\ \E f \in File : \/ \E v \in Versions(Step) \cup Past(f) : Touch(f, v)
                           \/ Reroot(f)
                           \/ \E v \in Versions(Step) \cup Past(f) \cup {Missing} : DiskThenReroot(f, v)
Spec == Init /\ [][Next]_vars

\* one JSON line per complete history: the initial configuration with its expected observation, then every action with
\* the expected observation after it
Emit == Len(hist) = MaxSteps =>
          PrintT("@@" \o ToJson([fs0 |-> {[file |-> f, v |-> fs0[f]] : f \in File}, obs0 |-> Obs(fs0, root0), hist |-> hist]))

(* laws of the reference *)
RootInWorkspace == root \in Reach(fs, root)
ReachClosed == \A f \in Reach(fs, root) : Targets(fs, f) \subseteq Reach(fs, root)
=============================================================================
