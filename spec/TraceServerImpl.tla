------------------------- MODULE TraceServerImpl -------------------------
(***************************************************************************)
(* Trace validation of the real server's hook log against ServerImpl.tla   *)
(* (the MODEL-DRIFT check): every recorded run - free-running bursts, the  *)
(* adversarial hold family, replayed model schedules - must be a behaviour *)
(* of the implementation-shaped model, whose deadlock freedom, liveness    *)
(* and ordering invariants TLC has established.  The log is written inside *)
(* the hook call under one mutex, so its order extends happens-before.     *)
(*                                                                         *)
(* Unlogged steps of the model (the loop over files ends, the closure      *)
(* returns and drops what it owns) are taken lazily and deterministically: *)
(* exactly when the next logged step needs them - an input write needs     *)
(* every snapshot gone, a publish needs the published-files mutex, the end *)
(* report needs the drop.  A task that was completed this way and is seen  *)
(* publishing afterwards makes the trace a non-behaviour.                  *)
(*                                                                         *)
(* One file holds many runs: Reset msgs | H w p t | End run.  A run that   *)
(* stops matching is marked (reason, line) and skipped to its End.         *)
(***************************************************************************)
EXTENDS ServerImpl, IOUtils

Rec == ndJsonDeserialize(IOEnv.TRACE)

TraceMsgs == [i \in 1..64 |-> "N"]        \* only its length matters here: at most 64 tasks per run

VARIABLES l, bad
tvars == <<vars, l, bad>>

\* tasks that can be completed silently: they have published (or are requests past their start) and still own something
Completable == {t \in Tasks : tpc[t] \in {"want_pub", "finish"}}
\* complete every task of F: the loop ends, the closure returns
Complete(F) == /\ tpc' = [t \in Tasks |-> IF t \in F THEN "dropped" ELSE tpc[t]]
               /\ snaps' = snaps \ F
               /\ pubLock' = IF pubLock \in F THEN 0 ELSE pubLock
               /\ UNCH(<<inbox, mpc, vfsW, vfsR, tkind, tleft, nextTask, rev, trev, tver, dver, pubSeq, answered, processed, sched>>)

\* what the logged step needs completed first
Needs(e) == IF e.w = "main" /\ e.p \in {"content_set", "root_set"} THEN snaps \cap Completable
            ELSE IF e.w = "task" /\ e.p = "publish" /\ pubLock \notin {0, e.t} /\ pubLock \in Completable THEN {pubLock}
            ELSE IF e.w = "task" /\ e.p = "end" /\ e.t \in Completable THEN {e.t}
            ELSE {}

Logged(e) ==
  IF e.w = "main" THEN
     CASE e.p = "notif_enter"    -> MNotifEnter
       [] e.p = "vfs_w_acquired" -> MAcquireW
       [] e.p = "content_set"    -> MSetContent
       [] e.p = "root_set"       -> MSetRoot
       [] e.p = "vfs_w_released" -> MReleaseW
       [] e.p = "spawn"          -> nextTask = e.t /\ (MSpawnDiag \/ MSpawnReq)
       [] e.p = "notif_exit"     -> MNotifExit
       [] OTHER -> FALSE
  ELSE IF e.t \notin Tasks THEN FALSE
  ELSE CASE e.p = "start"   -> TStart(e.t)
         [] e.p = "publish" -> TPublish(e.t)
         [] e.p = "end"     -> TEnd(e.t)
         [] OTHER -> FALSE

Why(e) == (IF e.w = "main" THEN "main." \o e.p \o " mpc=" \o mpc
           ELSE "task." \o e.p \o " tpc=" \o (IF e.t \in Tasks THEN tpc[e.t] ELSE "?"))
          \o (IF snaps # {} /\ e.w = "main" /\ e.p \in {"content_set", "root_set"} THEN " snapshot-alive" ELSE "")
          \o (IF e.w = "task" /\ e.p = "publish" /\ pubLock \notin {0, e.t} THEN " mutex-held-by-another-task" ELSE "")

Reset(e) == /\ inbox' = e.msgs /\ mpc' = "idle" /\ vfsW' = FALSE /\ vfsR' = {} /\ snaps' = {} /\ pubLock' = 0
            /\ tpc' = [t \in Tasks |-> "unborn"] /\ tkind' = [t \in Tasks |-> "none"] /\ tleft' = [t \in Tasks |-> 0]
            /\ nextTask' = 1 /\ rev' = 0 /\ trev' = [t \in Tasks |-> 0] /\ tver' = [t \in Tasks |-> 0] /\ dver' = 0
            /\ pubSeq' = <<>> /\ answered' = 0 /\ processed' = 0 /\ sched' = <<>> /\ bad' = ""

Step(e) ==
  CASE e.ev = "Reset" -> Reset(e)
    [] e.ev = "End" ->
         /\ PrintT("@@" \o ToJson([run |-> e.run, verdict |-> IF bad = "" THEN "accepted" ELSE "rejected", why |-> bad,
                                    monotone |-> VersionsMonotone, leftover |-> Cardinality(snaps)]))
         /\ UNCHANGED <<vars, bad>>
    [] bad # "" -> UNCHANGED <<vars, bad>>
    [] e.ev = "H" -> IF ENABLED Logged(e) THEN Logged(e) /\ bad' = bad
                     ELSE bad' = Why(e) \o " @line " \o ToString(l) /\ UNCHANGED vars
    [] OTHER -> bad' = "unknown-event" /\ UNCHANGED vars

TInit == Init /\ l = 1 /\ bad = ""
\* the completion a logged step needs is its own (unlogged) step in front of it; the event is consumed by the step after
Pending == l <= Len(Rec) /\ bad = "" /\ Rec[l].ev = "H" /\ Needs(Rec[l]) # {}
TNext == \/ Pending /\ Complete(Needs(Rec[l])) /\ UNCHANGED <<l, bad>>
         \/ ~Pending /\ l <= Len(Rec) /\ Step(Rec[l]) /\ l' = l + 1
TSpec == TInit /\ [][TNext]_tvars
\* every line consumed (the number of states on the way is Len(Rec) + 1 + the completions taken)
AllConsumed == TLCGet("stats").diameter >= Len(Rec) + 1
=============================================================================
