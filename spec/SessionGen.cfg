SPECIFICATION GSpec
CONSTANTS
  File = {"a", "b", "c"}
  MaxEvents = 3
  Next1 <- Ring
INVARIANT EmitSession
CHECK_DEADLOCK FALSE
