----------------------------- MODULE ObsTrace -----------------------------
(***************************************************************************)
(* Trace validation for the oracle-free invariants: every line of the      *)
(* recorded observation file is one step; the property named by PROP is    *)
(* evaluated on it.  A rejected record does not stop the run: it is        *)
(* printed (id + failed clauses) so that every rejection of a batch is     *)
(* reported and can be matched against the known-findings list.            *)
(***************************************************************************)
EXTENDS Obs, Json, IOUtils

Rec  == ndJsonDeserialize(IOEnv.TRACE)
Prop == IOEnv.PROP

VARIABLE l
Clauses(r) == CASE Prop = "C01" -> IF Ok(r) THEN LosslessClauses(r) ELSE <<>>   \* no tree to judge; C02 rejects it
                [] Prop = "C02" -> TotalClauses(r)
                [] Prop = "C03" -> AnsweredClauses(r)
                [] Prop = "C17" -> RangesClauses(r)
                [] Prop = "C06" -> CoherentClauses(r)
Judge(r) == LET f == Failed(Clauses(r)) IN
            IF f = {} THEN TRUE
            ELSE PrintT(<<"REJECT", Prop, l, ToJson(r.id), ToJson(f),
                          IF Prop = "C17" THEN ToJson(BadRanges(r)) ELSE "">>)
Init == l = 1
Next == l <= Len(Rec) /\ Judge(Rec[l]) /\ l' = l + 1
Spec == Init /\ [][Next]_l
AllConsumed == TLCGet("stats").diameter = Len(Rec) + 1
=============================================================================
