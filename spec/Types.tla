------------------------------- MODULE Types -------------------------------
(* C13: the small type system of the supported core, written from the TableGen Programmer's        *)
(* Reference (types, "castable" values, template-argument binding, the typed bang operators), not  *)
(* from crates/ide.  The module is a checker and a generator at once: TypeOf/Cast decide every     *)
(* (slot, expected type, value) triple of the universe below; "yes" triples become statements of   *)
(* fault-free programs (expected: no diagnostic anywhere), "no" triples become seeded faults       *)
(* (expected: a diagnostic covering the slot), "skip" triples are pairs the reference leaves to     *)
(* the value (bit <-> bits<n>) and are not exercised.  TLC checks the laws below (ASSUME) and      *)
(* prints the decided universe for the renderer (lib/p_types.py).                                   *)
EXTENDS Naturals, Sequences, FiniteSets, TLC, Json

CONSTANTS Emit       \* "all" | "none"   ("none": only the laws are evaluated)

\* ---------------------------------------------------------------------------------------------
\* types: <<"bit">> <<"int">> <<"string">> <<"code">> <<"dag">> <<"bits", n>> <<"list", t>> <<"cls", C>>
\* value-only types: <<"uninit">> (?)  <<"anylist">> ([])  <<"def", d>>  <<"listlit", {t...}>>
T(x) == <<x>>
Bits(n) == <<"bits", n>>
ListT(t) == <<"list", t>>
Cls(c) == <<"cls", c>>
DefT(d) == <<"def", d>>

\* the fixed prelude of every program (lib.td); the tables below describe it
Classes == {"Base", "Mid", "Mixin", "Both", "Other"}
ClsParents == [c \in Classes |-> CASE c = "Mid" -> <<"Base">> [] c = "Both" -> <<"Mixin", "Mid">> [] OTHER -> <<>>]
Defs == {"dBase", "dMid", "dMixin", "dBoth", "dTwo", "dOther", "dsB1", "dsB2"}      \* dsB1, dsB2 are declared inside the defset dsBases
DefParents == [d \in Defs |-> CASE d = "dBase" -> <<"Base">> [] d = "dMid" -> <<"Mid">> [] d = "dMixin" -> <<"Mixin">>
                                [] d = "dBoth" -> <<"Both">> [] d = "dTwo" -> <<"Mixin", "Mid">> [] d = "dOther" -> <<"Other">>
                                [] d = "dsB1" -> <<"Base">> [] d = "dsB2" -> <<"Mid">>]
Range(s) == {s[i] : i \in DOMAIN s}

RECURSIVE ClsAnc(_)
ClsAnc(c) == {c} \cup UNION {ClsAnc(p) : p \in Range(ClsParents[c])}
DefAnc(d) == UNION {ClsAnc(p) : p \in Range(DefParents[d])}

OwnFields == [c \in Classes |-> CASE c = "Base" -> {<<"w", T("int")>>, <<"s", T("string")>>}
                                  [] c = "Mixin" -> {<<"m", T("bit")>>}
                                  [] c = "Other" -> {<<"o", ListT(T("int"))>>}
                                  [] OTHER -> {}]
FieldsOf(cs) == UNION {OwnFields[c] : c \in cs}

PreludeLines == <<
  "class Base<int n = 1> { int w = n; string s = \"x\"; }",
  "class Mid : Base<2>;",
  "class Mixin { bit m = 0; }",
  "class Both : Mixin, Mid;",
  "class Other { list<int> o = [1]; }",
  "def op;",
  "def dBase : Base<3>;",
  "def dMid : Mid;",
  "def dMixin : Mixin;",
  "def dBoth : Both;",
  "def dTwo : Mixin, Mid;",
  "def dOther : Other;",
  "defvar vInt = 1;",
  "defvar vStr = \"dBase\";",
  "defvar vBit = true;",
  "defvar vBits = {0, 1, 0, 1};",
  "defvar vInts = [1, 0];",
  "defvar vStrs = [\"a\", \"b\"];",
  "defvar vDag = (op 1, 0);",
  "defset list<Base> dsBases = { def dsB1 : Base; def dsB2 : Mid<>; }",
  "class P2<int a, string b = \"d\"> { int x = a; string y = b; }",
  "class P3<list<int> l, Base r, bit f = 0> { }",
  "multiclass M0 { def _z; }",
  "multiclass M2<int a, string b = \"d\"> { def _p : P2<a, b>; }" >>

\* ---------------------------------------------------------------------------------------------
RECURSIVE TyTxt(_)
TyTxt(t) == CASE t[1] = "bits" -> "bits<" \o ToString(t[2]) \o ">"
              [] t[1] = "list" -> "list<" \o TyTxt(t[2]) \o ">"
              [] t[1] = "cls" -> t[2]
              [] t[1] = "def" -> t[2]
              [] t[1] = "listlit" -> "listlit"
              [] OTHER -> t[1]

Min3(S) == IF "no" \in S THEN "no" ELSE IF "skip" \in S THEN "skip" ELSE "yes"

(* Cast(a, b): may a value of type a initialise something declared b?  Reference: a value is      *)
(* accepted where its type is a subtype of, or convertible to, the declared type: bit/int         *)
(* interconvert, int and bits<n> interconvert (value permitting), string and code are the same,   *)
(* lists convert element-wise, a record converts to each of its (transitive) superclasses,        *)
(* ? and [] fit everything / every list.                                                           *)
RECURSIVE Cast(_, _)
Cast(a, b) ==
  IF a[1] = "uninit" THEN "yes"
  ELSE IF a[1] = "opaque" THEN "skip"       \* !getdagop without a type: "usable only where any record class is acceptable"
  ELSE IF a = b THEN "yes"
  ELSE IF a[1] \in {"bit", "int"} /\ b[1] \in {"bit", "int"} THEN "yes"
  ELSE IF {a[1], b[1]} = {"int", "bits"} THEN "yes"
  ELSE IF {a[1], b[1]} = {"bit", "bits"} THEN "skip"
  ELSE IF {a[1], b[1]} = {"string", "code"} THEN "yes"
  ELSE IF a[1] = "anylist" THEN (IF b[1] = "list" THEN "yes" ELSE "no")
  ELSE IF a[1] = "list" /\ b[1] = "list" THEN Cast(a[2], b[2])
  ELSE IF a[1] = "listlit" /\ b[1] = "list" THEN Min3({Cast(e, b[2]) : e \in a[2]})
  ELSE IF a[1] = "def" /\ b[1] = "cls" THEN (IF b[2] \in DefAnc(a[2]) THEN "yes" ELSE "no")
  ELSE IF a[1] = "cls" /\ b[1] = "cls" THEN (IF b[2] \in ClsAnc(a[2]) THEN "yes" ELSE "no")
  ELSE "no"

\* ---------------------------------------------------------------------------------------------
\* values: [ty, txt, k]; k names the syntactic form (coverage bookkeeping)
V(k, ty, txt) == [k |-> k, ty |-> ty, txt |-> txt]

Literals == {
  V("lit", T("bit"), "true"), V("lit", T("bit"), "false"), V("lit", T("int"), "1"), V("lit", T("int"), "0"),
  V("lit", T("string"), "\"s\""), V("lit", T("code"), "[{c}]"), V("lit", T("dag"), "(op 1, \"a\")"),
  V("lit", T("dag"), "(op)"), V("lit", Bits(4), "{0, 1, 0, 1}"), V("lit", Bits(2), "{1, 0}"),
  V("lit", T("uninit"), "?"), V("lit", T("anylist"), "[]"), V("lit", Bits(1), "0b1"), V("lit", T("int"), "0x1"),
  V("lit", T("string"), "\"a\" # \"b\"") }

DefNames == {V("def", DefT(d), d) : d \in Defs}
VarNames == { V("var", Bits(4), "vBits"), V("var", T("int"), "vInt"), V("var", T("string"), "vStr"), V("var", T("bit"), "vBit"),
              V("var", ListT(T("int")), "vInts"), V("var", ListT(T("string")), "vStrs"), V("var", T("dag"), "vDag") }
FieldAcc == UNION {{V("field", f[2], d \o "." \o f[1]) : f \in FieldsOf(DefAnc(d))} : d \in Defs}
DefsetNames == {V("defset", ListT(Cls("Base")), "dsBases")}
\* value suffixes: element and slice of a list, bit selection from bits<n> and from int
Suffixed == { V("suffix", T("int"), "vInts[0]"), V("suffix", ListT(T("int")), "vInts[0...1]"), V("suffix", ListT(T("int")), "vInts[1, 0]"),
              V("suffix", T("string"), "vStrs[1]"), V("suffix", ListT(T("string")), "vStrs[0...1]"),
              V("suffix", Bits(1), "vBits{0}"), V("suffix", Bits(2), "vBits{1...0}"), V("suffix", Bits(2), "vBits{3, 0}"),
              V("suffix", Bits(1), "vInt{0}"), V("suffix", Bits(2), "vInt{1-0}"), V("suffix", T("int"), "dOther.o[0]") }
Atoms == Literals \cup DefNames \cup VarNames \cup FieldAcc \cup DefsetNames \cup Suffixed

\* list literals: one or two atoms; the literal's type is the set of its element types
ListElems == {v \in Atoms : v.k \in {"lit", "def", "var"} /\ v.ty[1] \notin {"uninit", "anylist", "dag", "code"} /\ v.txt \notin {"false", "0", "0b1", "0x1", "\"a\" # \"b\""}}
\* the elements of a list literal must have a common type: one converts to the other, or both are records
ElemsAgree(a, b) == Cast(a, b) = "yes" \/ Cast(b, a) = "yes" \/ (a[1] = "def" /\ b[1] = "def")
\* "[{" opens a code literal, so a bits literal in first position is set off by a blank
Open(x) == IF x.ty[1] = "bits" THEN "[ " ELSE "["
ListLits == {V("list1", <<"listlit", {x.ty}>>, Open(x) \o x.txt \o "]") : x \in ListElems}
       \cup UNION {{V("list2", <<"listlit", {x.ty, y.ty}>>, Open(x) \o x.txt \o ", " \o y.txt \o "]") :
                       y \in {z \in ListElems : (z.k = "def" \/ z.k = "lit") /\ ElemsAgree(x.ty, z.ty)}} : x \in ListElems}
       \cup {V("list1", <<"listlit", {<<"listlit", {T("int")}>>}>>, "[[1]]")}

\* class values of the prelude's classes with fitting arguments
ClassVals == { V("classval", Cls("Base"), "Base<1>"), V("classval", Cls("Base"), "Base<>"), V("classval", Cls("Mid"), "Mid<>"),
               V("classval", Cls("Both"), "Both<>"), V("classval", Cls("Other"), "Other<>"), V("classval", Cls("Mixin"), "Mixin<>"),
               V("classval", T("int"), "Base<1>.w"), V("classval", T("string"), "Mid<>.s") }

\* ---------------------------------------------------------------------------------------------
(* The typed bang operators.  Each row: name, type annotation ("" = none), minimum and maximum     *)
(* operand count (0 = unbounded), and a set of well-typed operand rows with the result type.        *)
(* Operand texts are written out: the operand rules are per operator in the reference.              *)
I == T("int")  B == T("bit")  S == T("string")  D == T("dag")  LI == ListT(T("int"))  LS == ListT(T("string"))

Row(args, res) == [args |-> args, res |-> res]
Op(name, ann, lo, hi, rows) == [op |-> name, ann |-> ann, lo |-> lo, hi |-> hi, rows |-> rows]

IntRows == {Row(<<"1", "vInt">>, I), Row(<<"vBit", "1">>, I), Row(<<"{0, 1, 0, 1}", "1">>, I), Row(<<"dBase.w", "0x1">>, I)}
Ops == {
  Op("add", "", 2, 0, IntRows \cup {Row(<<"1", "vInt", "0">>, I)}),
  Op("mul", "", 2, 0, IntRows \cup {Row(<<"1", "vInt", "0", "1">>, I)}),
  Op("and", "", 2, 0, IntRows), Op("or", "", 2, 0, IntRows), Op("xor", "", 2, 0, IntRows),
  Op("sub", "", 2, 2, IntRows), Op("div", "", 2, 2, IntRows), Op("shl", "", 2, 2, IntRows),
  Op("sra", "", 2, 2, IntRows), Op("srl", "", 2, 2, IntRows),
  Op("not", "", 1, 1, {Row(<<"1">>, B), Row(<<"vBit">>, B), Row(<<"!eq(1, 0)">>, B)}),
  Op("eq", "", 2, 2, {Row(<<"1", "vInt">>, B), Row(<<"\"a\"", "vStr">>, B), Row(<<"vBit", "0">>, B), Row(<<"dBase", "dMid">>, B),
                       Row(<<"{1, 0}", "1">>, B)}),
  Op("ne", "", 2, 2, {Row(<<"1", "vInt">>, B), Row(<<"\"a\"", "vStr">>, B), Row(<<"vBit", "0">>, B)}),
  Op("lt", "", 2, 2, {Row(<<"1", "vInt">>, B), Row(<<"\"a\"", "vStr">>, B), Row(<<"vBit", "0">>, B)}),
  Op("le", "", 2, 2, {Row(<<"1", "vInt">>, B), Row(<<"\"a\"", "vStr">>, B)}),
  Op("gt", "", 2, 2, {Row(<<"1", "vInt">>, B), Row(<<"\"a\"", "vStr">>, B)}),
  Op("ge", "", 2, 2, {Row(<<"1", "vInt">>, B), Row(<<"\"a\"", "vStr">>, B)}),
  Op("strconcat", "", 2, 0, {Row(<<"\"a\"", "vStr">>, S), Row(<<"\"a\"", "vStr", "dBase.s">>, S), Row(<<"[{c}]", "\"a\"">>, S)}),
  Op("size", "", 1, 1, {Row(<<"vInts">>, I), Row(<<"\"abc\"">>, I), Row(<<"vDag">>, I), Row(<<"dOther.o">>, I)}),
  Op("empty", "", 1, 1, {Row(<<"vInts">>, B), Row(<<"\"abc\"">>, B), Row(<<"vDag">>, B), Row(<<"vStrs">>, B)}),
  Op("head", "", 1, 1, {Row(<<"vInts">>, I), Row(<<"vStrs">>, S), Row(<<"[dBase]">>, Cls("Base")), Row(<<"[1, 0]">>, I)}),
  Op("tail", "", 1, 1, {Row(<<"vInts">>, LI), Row(<<"vStrs">>, LS), Row(<<"[1, 0]">>, LI)}),
  Op("listconcat", "", 2, 0, {Row(<<"vInts", "[1]">>, LI), Row(<<"vStrs", "[\"c\"]", "vStrs">>, LS), Row(<<"vInts", "[]">>, LI),
                               Row(<<"[dBase]", "[dMid]">>, ListT(Cls("Base")))}),
  Op("listremove", "", 2, 2, {Row(<<"vInts", "[1]">>, LI), Row(<<"vStrs", "vStrs">>, LS)}),
  Op("listsplat", "", 2, 2, {Row(<<"1", "2">>, LI), Row(<<"\"a\"", "vInt">>, LS), Row(<<"dBase", "1">>, ListT(Cls("Base")))}),
  Op("if", "", 3, 3, {Row(<<"vBit", "1", "0">>, I), Row(<<"1", "\"a\"", "vStr">>, S), Row(<<"!eq(vInt, 1)", "vInts", "[1]">>, LI),
                       Row(<<"true", "dBase", "dMid">>, Cls("Base"))}),
  Op("isa", "Base", 1, 1, {Row(<<"dBase">>, B), Row(<<"dOther">>, B), Row(<<"dTwo">>, B)}),
  Op("isa", "Mixin", 1, 1, {Row(<<"dBoth">>, B)}),
  Op("cast", "Base", 1, 1, {Row(<<"\"dBase\"">>, Cls("Base")), Row(<<"vStr">>, Cls("Base"))}),
  Op("cast", "string", 1, 1, {Row(<<"1">>, S), Row(<<"dBase">>, S), Row(<<"vBit">>, S)}),
  Op("cast", "int", 1, 1, {Row(<<"vBit">>, I), Row(<<"{1, 0}">>, I)}),
  Op("exists", "Base", 1, 1, {Row(<<"\"dBase\"">>, B), Row(<<"vStr">>, B)}),
  Op("tolower", "", 1, 1, {Row(<<"\"A\"">>, S), Row(<<"vStr">>, S)}),
  Op("toupper", "", 1, 1, {Row(<<"\"a\"">>, S), Row(<<"dBase.s">>, S)}),
  Op("substr", "", 2, 3, {Row(<<"\"abc\"", "1">>, S), Row(<<"vStr", "0", "vInt">>, S)}),
  Op("find", "", 2, 3, {Row(<<"\"abc\"", "\"b\"">>, I), Row(<<"vStr", "\"a\"", "0">>, I)}),
  Op("subst", "", 3, 3, {Row(<<"\"a\"", "\"b\"", "\"abc\"">>, S), Row(<<"vStr", "vStr", "vStr">>, S), Row(<<"dBase", "dBase", "dBase">>, DefT("dBase"))}),
  Op("interleave", "", 2, 2, {Row(<<"vInts", "\", \"">>, S), Row(<<"vStrs", "vStr">>, S), Row(<<"[true, false]", "\"\"">>, S)}),
  Op("foldl", "", 5, 5, {Row(<<"0", "vInts", "acc", "x", "!add(acc, x)">>, I), Row(<<"\"\"", "vStrs", "acc", "x", "!strconcat(acc, x)">>, S),
                          Row(<<"vInts", "vInts", "acc", "x", "!listconcat(acc, [x])">>, LI),
                          \* the accumulator has the type of the start value, not of the list's elements
                          Row(<<"0", "vStrs", "acc", "x", "!add(acc, !size(x))">>, I), Row(<<"\"\"", "vInts", "acc", "x", "!strconcat(acc, !cast<string>(x))">>, S),
                          Row(<<"0", "[dBase, dMid]", "acc", "x", "!add(acc, x.w)">>, I)}),
  Op("foreach", "", 3, 3, {Row(<<"x", "vInts", "!add(x, 1)">>, LI), Row(<<"x", "vStrs", "!strconcat(x, \"!\")">>, LS),
                            Row(<<"x", "[1, 0]", "!eq(x, 1)">>, ListT(B))}),
  Op("filter", "", 3, 3, {Row(<<"x", "vInts", "!lt(x, 1)">>, LI), Row(<<"x", "vStrs", "!ne(x, \"a\")">>, LS)}),
  Op("range", "", 1, 3, {Row(<<"3">>, LI), Row(<<"1", "vInt">>, LI), Row(<<"0", "4", "2">>, LI), Row(<<"vInts">>, LI)}),
  Op("con", "", 2, 0, {Row(<<"vDag", "(op 1)">>, D), Row(<<"vDag", "vDag", "(op)">>, D)}),
  Op("dag", "", 3, 3, {Row(<<"op", "vInts", "vStrs">>, D), Row(<<"op", "[1, 0]", "?">>, D), Row(<<"op", "[1]", "[\"n\"]">>, D)}),
  Op("getdagop", "", 1, 1, {Row(<<"vDag">>, T("opaque"))}),
  Op("getdagop", "Base", 1, 1, {Row(<<"(dBase 1)">>, Cls("Base"))}),
  Op("setdagop", "", 2, 2, {Row(<<"vDag", "dBase">>, D)}),
  Op("getdagarg", "int", 2, 2, {Row(<<"vDag", "0">>, I), Row(<<"(op 1:$k)", "\"k\"">>, I)}),
  Op("getdagname", "", 2, 2, {Row(<<"(op 1:$k)", "0">>, S)}),
  Op("setdagarg", "", 3, 3, {Row(<<"vDag", "0", "2">>, D), Row(<<"(op 1:$k)", "\"k\"", "\"v\"">>, D)}),
  Op("setdagname", "", 3, 3, {Row(<<"vDag", "0", "\"n\"">>, D), Row(<<"(op 1:$k)", "\"k\"", "\"n\"">>, D)}) }

RECURSIVE Join(_, _)
Join(s, sep) == IF s = <<>> THEN "" ELSE IF Len(s) = 1 THEN s[1] ELSE s[1] \o sep \o Join(Tail(s), sep)
OpTxt(o, args) == "!" \o o.op \o (IF o.ann = "" THEN "" ELSE "<" \o o.ann \o ">") \o "(" \o Join(args, ", ") \o ")"

OpVals == UNION {{V("op:" \o o.op, r.res, OpTxt(o, r.args)) : r \in o.rows} : o \in Ops}
CondVals == { V("cond", T("int"), "!cond(vBit: 1, true: 0)"), V("cond", T("string"), "!cond(!lt(vInt, 1): \"a\", true: \"b\")"),
              V("cond", ListT(T("int")), "!cond(!empty(vInts): [1], true: vInts)") }

\* arity faults: one operand fewer than the minimum, one more than the maximum (repeat the last operand)
ArityFaults == UNION {
  {[op |-> o.op, how |-> "few", txt |-> OpTxt(o, SubSeq(r.args, 1, o.lo - 1))] : r \in {r \in o.rows : Len(r.args) = o.lo /\ o.lo >= 1}}
  \cup {[op |-> o.op, how |-> "many", txt |-> OpTxt(o, r.args \o <<r.args[Len(r.args)]>>)] : r \in {r \in o.rows : o.hi # 0 /\ Len(r.args) = o.hi /\ o.op \notin {"foldl", "foreach", "filter"}}}
  : o \in Ops}

\* ---------------------------------------------------------------------------------------------
DeclTypes == { T("bit"), T("int"), T("string"), T("code"), T("dag"), Bits(4), Bits(2), ListT(T("int")), ListT(T("string")), ListT(T("bit")),
               ListT(ListT(T("int"))), Cls("Base"), Cls("Mid"), Cls("Mixin"), Cls("Other"), Cls("Both"), ListT(Cls("Base")), ListT(Cls("Mixin")) }

\* operator applications with an untyped [] among the operands: only where the context gives the type (not in a defvar)
TypedOnly == { V("op:if", LI, "!if(vBit, vInts, [])"), V("op:if", LI, "!if(vBit, [], vInts)"), V("op:listconcat", LI, "!listconcat([], vInts)"),
               V("op:listconcat", LS, "!listconcat(vStrs, [], [\"z\"])"), V("op:cond", LI, "!cond(vBit: [], true: vInts)") }
Values == Atoms \cup ListLits \cup ClassVals \cup OpVals \cup CondVals \cup TypedOnly

(* slots: where a typed value is written.  "%" is replaced by a fresh number, "@T" by the type,    *)
(* "@V" by the value.  decl = top-level declarations the statement needs (never wrapped),           *)
(* pre/post = the statement around the slot, cls = the statement declares a class (classes are     *)
(* not allowed inside foreach / if / multiclass).                                                   *)
(* faults = FALSE: the slot is exercised in fault-free programs only (a top-level let is checked when the records it      *)
(* reaches are resolved; the property's fault classes name initialisers and arguments)                                  *)
Slot(s, decl, pre, post, cls) == [s |-> s, decl |-> decl, pre |-> pre, post |-> post, cls |-> cls, faults |-> s # "let-top"]
Slots == {
  Slot("field-class",  "", "class K%<int z = 0> { @T f = ", "; }", TRUE),
  Slot("field-def",    "", "def D% { @T f = ", "; }", FALSE),
  Slot("let-def",      "class Q% { @T f = ?; }", "def D% : Q% { let f = ", "; }", FALSE),
  Slot("let-top",      "class Q% { @T f = ?; }", "let f = ", " in def D% : Q%;", FALSE),
  Slot("arg-parent",   "class Q%<@T a> { @T f = a; }", "def D% : Q%<", ">;", FALSE),
  Slot("arg-classval", "class Q%<@T a>;", "def D% { Q% f = Q%<", ">; }", FALSE),
  Slot("arg-defm",     "multiclass N%<@T a> { def _d { @T f = a; } }", "defm D% : N%<", ">;", FALSE),
  Slot("targ-default", "", "class K%<@T a = ", ">;", TRUE),
  Slot("foreach-list", "", "foreach i% = ", " in { defvar u% = i%; }", FALSE) }

(* the constructs a statement may be nested in; "def" wrappers only take statements with cls = FALSE *)
Wrappers == {
  [w |-> "none", pre |-> "", post |-> "", cls |-> TRUE],
  [w |-> "letin", pre |-> "let zz = 1 in { ", post |-> " }", cls |-> TRUE],
  [w |-> "foreach", pre |-> "foreach j% = [1] in { ", post |-> " }", cls |-> FALSE],
  [w |-> "if", pre |-> "if true then { ", post |-> " }", cls |-> FALSE],
  [w |-> "else", pre |-> "if false then { } else { ", post |-> " }", cls |-> FALSE],
  [w |-> "multiclass", pre |-> "multiclass W% { ", post |-> " }", cls |-> FALSE],
  [w |-> "foreach-if", pre |-> "foreach j% = [1, 0] in if !eq(j%, 1) then { ", post |-> " }", cls |-> FALSE] }

(* template-argument binding: count, positional matching, defaults *)
Param(t, d, ex) == [t |-> t, dflt |-> d, ex |-> ex]
Params == [c \in {"Base", "Other", "P2", "P3", "M0", "M2"} |->
             CASE c = "Base" -> <<Param(I, TRUE, "1")>>
               [] c = "P2" -> <<Param(I, FALSE, "1"), Param(S, TRUE, "\"q\"")>>
               [] c = "M2" -> <<Param(I, FALSE, "vInt"), Param(S, TRUE, "vStr")>>
               [] c = "P3" -> <<Param(LI, FALSE, "[1]"), Param(Cls("Base"), FALSE, "dMid"), Param(B, TRUE, "true")>>
               [] OTHER -> <<>>]
Required(c) == Cardinality({i \in DOMAIN Params[c] : ~Params[c][i].dflt})
Bind(c, n) == IF n < Required(c) THEN "missing" ELSE IF n > Len(Params[c]) THEN "surplus" ELSE "ok"
ArgTxt(c, n) == Join([i \in 1..n |-> IF i <= Len(Params[c]) THEN Params[c][i].ex ELSE "0"], ", ")
BindPositions == {
  [p |-> "def-parent", mc |-> FALSE, pre |-> "def D% : ", post |-> ";"],
  [p |-> "class-parent", mc |-> FALSE, pre |-> "class K% : ", post |-> ";"],
  [p |-> "class-value", mc |-> FALSE, pre |-> "defvar X% = ", post |-> ";"],
  [p |-> "defm", mc |-> TRUE, pre |-> "defm D% : ", post |-> ";"],
  [p |-> "multiclass-parent", mc |-> TRUE, pre |-> "multiclass N% : ", post |-> " { def _q; }"] }
IsMc(c) == c \in {"M0", "M2"}
Binds == {[p |-> bp.p, pre |-> bp.pre, post |-> bp.post, c |-> c, n |-> n, angle |-> a,
           ref |-> c \o (IF a THEN "<" \o ArgTxt(c, n) \o ">" ELSE ""), verdict |-> Bind(c, n)] :
             bp \in BindPositions, c \in DOMAIN Params, n \in 0..4, a \in BOOLEAN} 
BindCases == {b \in Binds : /\ (IsMc(b.c) <=> (b.p \in {"defm", "multiclass-parent"}))
                             /\ (b.n > 0 => b.angle) /\ b.n <= Len(Params[b.c]) + 1
                             /\ (b.p = "class-value" => b.angle)}

(* named template arguments (name = value, in any order, after the positional ones): P2<int a, string b = "d">, M2 likewise *)
NamedArgs == {
  [args |-> "a = 1", verdict |-> "ok"], [args |-> "a = 1, b = \"x\"", verdict |-> "ok"], [args |-> "1, b = \"x\"", verdict |-> "ok"],
  [args |-> "b = \"x\", a = vInt", verdict |-> "ok"], [args |-> "a = !add(1, 0)", verdict |-> "ok"],
  [args |-> "b = \"x\"", verdict |-> "missing"], [args |-> "a = \"s\"", verdict |-> "type"], [args |-> "1, b = 2", verdict |-> "type"] }
NamedBinds == {[p |-> bp.p, pre |-> bp.pre, post |-> bp.post, c |-> c, ref |-> c \o "<" \o na.args \o ">", args |-> na.args, verdict |-> na.verdict] :
                 bp \in {x \in BindPositions : x.p \in {"def-parent", "class-value", "defm"}}, c \in {"P2", "M2"}, na \in NamedArgs}
NamedCases == {b \in NamedBinds : IsMc(b.c) <=> (b.p = "defm")}

(* names that must resolve: the defined variant is part of fault-free programs, the undefined one is a seeded fault *)
NameSlot(s, pre, post, ok, bad) == [s |-> s, pre |-> pre, post |-> post, ok |-> ok, bad |-> bad]
NameSlots == {
  NameSlot("class:def-parent", "def D% : ", ";", "Base", "Nope%"),
  NameSlot("class:def-second-parent", "def D% : Mixin, ", ";", "Mid", "Nope%"),
  NameSlot("class:class-parent", "class K% : ", ";", "Mid", "Nope%"),
  NameSlot("class:field-type", "class K% { ", " f; }", "Base", "Nope%"),
  NameSlot("class:list-field-type", "def D% { list<", "> f = []; }", "Mixin", "Nope%"),
  NameSlot("class:targ-type", "class K%<", " a>;", "Other", "Nope%"),
  NameSlot("class:defset-type", "defset list<", "> S% = { }", "Base", "Nope%"),
  NameSlot("class:class-value", "defvar X% = ", "<>;", "Mixin", "Nope%"),
  NameSlot("class:class-value-field", "def D% { int f = ", "<1>.w; }", "Base", "Nope%"),
  NameSlot("class:isa", "defvar X% = !isa<", ">(dBase);", "Mid", "Nope%"),
  NameSlot("class:cast", "defvar X% = !cast<", ">(\"dBase\");", "Base", "Nope%"),
  NameSlot("multiclass:defm", "defm D% : ", ";", "M0", "NopeM%"),
  NameSlot("multiclass:defm-args", "defm D% : ", "<1>;", "M2", "NopeM%"),
  NameSlot("multiclass:defm-second", "defm D% : M2<1>, ", ";", "M0", "NopeM%"),
  NameSlot("multiclass:parent", "multiclass N% : ", " { def _q; }", "M0", "NopeM%"),
  NameSlot("ident:defvar", "defvar X% = ", ";", "vInt", "nope%"),
  NameSlot("ident:field-init", "def D% { int f = ", "; }", "vInt", "nope%"),
  NameSlot("ident:template-arg", "def D% : Base<", ">;", "vInt", "nope%"),
  NameSlot("ident:foreach-list", "foreach i% = ", " in { defvar u% = i%; }", "vInts", "nope%"),
  NameSlot("ident:field-access", "defvar X% = ", ".w;", "dBase", "nope%"),
  NameSlot("ident:operand", "defvar X% = !add(1, ", ");", "vInt", "nope%"),
  NameSlot("ident:list-element", "defvar X% = [1, ", "];", "vInt", "nope%"),
  NameSlot("ident:dag-arg", "defvar X% = (op ", ");", "vInt", "nope%"),
  NameSlot("ident:let-value", "def D% : Base { let w = ", "; }", "vInt", "nope%"),
  NameSlot("ident:if-condition", "if ", " then { def D%_z; }", "vBit", "nope%"),
  NameSlot("ident:assert", "assert ", ", \"m\";", "vBit", "nope%"),
  NameSlot("include", "include \"", "\"", "lib.td", "nope%.td") }

(* shadowing: an inner declaration (template argument, field, multiclass argument, foreach iterator) hides an outer defvar of the  *)
(* same name; the use has the type of the INNER declaration                                                                     *)
LitOf(t) == IF t = T("int") THEN "1" ELSE "\"s\""
ShadowKinds == {
  [k |-> "class-targ",  pre |-> "class K%<@I sh%> { @F v = ", post |-> "; }"],
  [k |-> "class-field", pre |-> "class K% { @I sh% = @L; @F v = ", post |-> "; }"],
  [k |-> "def-field",   pre |-> "def D% { @I sh% = @L; @F v = ", post |-> "; }"],
  [k |-> "mc-targ",     pre |-> "multiclass N%<@I sh%> { def _d { @F v = ", post |-> "; } }"] }
ShadowCases == {[k |-> sk.k, pre |-> sk.pre, post |-> sk.post, outer |-> TyTxt(to), outerlit |-> LitOf(to), inner |-> TyTxt(ti), innerlit |-> LitOf(ti),
                 field |-> TyTxt(tf), c |-> Cast(ti, tf)] :
                  sk \in ShadowKinds, to \in {T("int"), T("string")}, ti \in {T("int"), T("string")}, tf \in {T("int"), T("string")}}

(* syntax faults: one structural token deleted, or one stray closer inserted, in any statement *)
Deletable == {";", "{", "}", "=", "<", ">", "(", ")", "[", "]", ",", "in", ":", "then"}
Insertable == {")", "]", "}"}

(* int -> bit and int -> bits<n> depend on the value (0/1, fits in n bits): only the literals 0 and 1 are exercised in that    *)
(* direction; [] has no type of its own in a top-level let                                                                  *)
RECURSIVE BaseOf(_)
BaseOf(t) == IF t[1] = "list" THEN BaseOf(t[2])
             ELSE IF t[1] = "listlit" THEN (IF \E e \in t[2] : BaseOf(e) = "int" THEN "int" ELSE "other")
             ELSE t[1]
ValueDependent(t, v) == BaseOf(t) \in {"bit", "bits"} /\ BaseOf(v.ty) = "int" /\ v.txt \notin {"0", "1"}
Decide(slot, t, v) == IF slot.s = "foreach-list" THEN (IF v.ty[1] \in {"list", "listlit"} THEN "yes" ELSE "other")
                      ELSE IF Cast(v.ty, t) = "no" /\ ~slot.faults THEN "skip"
                      ELSE IF Cast(v.ty, t) = "yes" /\ ValueDependent(t, v) THEN "skip"
                      ELSE IF slot.s = "let-top" /\ v.ty[1] = "anylist" THEN "skip"
                      ELSE Cast(v.ty, t)

\* which triples are emitted: every atom and class value everywhere; compound values in the two field slots
Triples == {<<sl, t, v>> \in Slots \X DeclTypes \X Values :
               /\ (v.k \in {"lit", "def", "var", "field", "classval", "defset", "suffix"} \/ sl.s \in {"field-class", "arg-parent"})
               /\ (sl.s = "foreach-list" => t = T("int")) }

\* ---------------------------------------------------------------------------------------------
\* laws (evaluated by TLC at startup; a violated law is a specification error, never an alarm about the code)
UTypes == DeclTypes \cup {v.ty : v \in Values}
ASSUME CastReflexive == \A t \in UTypes : t[1] # "opaque" => Cast(t, t) = "yes"
\* conversions through int are value-dependent (bits<4> -> int -> bits<2>), so transitivity is claimed away from bits only
NoBits == {t \in DeclTypes : t[1] # "bits"}
ASSUME CastTransitive == \A a \in NoBits, b \in NoBits, c \in NoBits :
                            (Cast(a, b) = "yes" /\ Cast(b, c) = "yes") => Cast(a, c) = "yes"
ASSUME UninitFitsAll == \A t \in DeclTypes : Cast(T("uninit"), t) = "yes"
ASSUME DefsFitAncestors == \A d \in Defs : \A c \in Classes : (Cast(DefT(d), Cls(c)) = "yes") <=> (c \in DefAnc(d))
ASSUME SecondParentCounts == Cast(DefT("dTwo"), Cls("Base")) = "yes" /\ Cast(DefT("dBoth"), Cls("Base")) = "yes"
ASSUME ListsCovariant == \A a \in DeclTypes, b \in DeclTypes : Cast(ListT(a), ListT(b)) = Cast(a, b)
ASSUME ArityRowsLegal == \A o \in Ops : \A r \in o.rows : Len(r.args) >= o.lo /\ (o.hi = 0 \/ Len(r.args) <= o.hi)
ASSUME BindLaw == \A c \in DOMAIN Params : \A n \in 0..4 : (Bind(c, n) = "ok") <=> (Required(c) <= n /\ n <= Len(Params[c]))
ASSUME DefaultsTrail == \A c \in DOMAIN Params : \A i \in DOMAIN Params[c] : \A j \in DOMAIN Params[c] : (i < j /\ Params[c][i].dflt) => Params[c][j].dflt
ASSUME NotVacuous == \A t \in DeclTypes : (\E v \in Atoms : Cast(v.ty, t) = "yes" /\ v.ty[1] # "uninit") /\ (\E v \in Atoms : Cast(v.ty, t) = "no")

VARIABLE done
Init == done = FALSE
Next == /\ ~done
        /\ done' = TRUE
        /\ PrintT("@@" \o ToJson([k |-> "prelude", lines |-> PreludeLines]))
        /\ IF Emit = "all"
           THEN /\ \A sl \in Slots : PrintT("@@" \o ToJson([k |-> "slot"] @@ sl))
                /\ \A w \in Wrappers : PrintT("@@" \o ToJson([k |-> "wrapper"] @@ w))
                /\ \A b \in BindCases : PrintT("@@" \o ToJson([k |-> "bind"] @@ b))
                /\ \A nb \in NamedCases : PrintT("@@" \o ToJson([kk |-> "named"] @@ nb))
                /\ \A ns \in NameSlots : PrintT("@@" \o ToJson([k |-> "name"] @@ ns))
                /\ PrintT("@@" \o ToJson([k |-> "syntax", deletable |-> Deletable, insertable |-> Insertable]))
                /\ \A sc \in ShadowCases : PrintT("@@" \o ToJson([kk |-> "shadow"] @@ sc))
                /\ \A tr \in Triples : PrintT("@@" \o ToJson([k |-> "triple", s |-> tr[1].s, t |-> TyTxt(tr[2]),
                                                               v |-> tr[3].txt, vk |-> tr[3].k, vt |-> TyTxt(tr[3].ty), c |-> Decide(tr[1], tr[2], tr[3])]))
                /\ \A f \in ArityFaults : PrintT("@@" \o ToJson([k |-> "arity", op |-> f.op, how |-> f.how, txt |-> f.txt]))
                /\ \A v \in OpVals \cup CondVals : PrintT("@@" \o ToJson([k |-> "opval", txt |-> v.txt, vk |-> v.k, vt |-> TyTxt(v.ty)]))
           ELSE TRUE
Spec == Init /\ [][Next]_done
=============================================================================
