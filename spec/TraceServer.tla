---------------------------- MODULE TraceServer ----------------------------
(***************************************************************************)
(* Trace validation (direction B): is the JSON-RPC log recorded from the   *)
(* real server a behaviour of Server.tla, and do Answered / Converges hold *)
(* wherever the client observed the server idle?                           *)
(*                                                                         *)
(* One file holds many recorded runs, separated by Reset events.  Every    *)
(* line is one step.  An event whose Server.tla guard fails marks the run  *)
(* as rejected (with the reason and the line), the rest of that run is     *)
(* skipped and the verdict is printed at its End event: so every run of a  *)
(* batch gets a verdict, not only the first rejected one.                  *)
(*   events: Reset | Disk f t | Open f t | Change f t | Publish f ver S |  *)
(*           Request id kind f | Response id S | Quiet | NoQuiescence |    *)
(*           Crash | End run                                                *)
(***************************************************************************)
EXTENDS Server, Json, IOUtils

Rec == ndJsonDeserialize(IOEnv.TRACE)

VARIABLES l, bad          \* position in Rec; "" or the reason why the current run is rejected
vars == <<svars, l, bad>>

Text(e) == [k |-> e.t.k, inc |-> e.t.inc, faulty |-> e.t.faulty, lay |-> e.t.lay, um |-> e.t.um, mm |-> e.t.mm]
ToSetOf(s) == {s[i] : i \in 1..Len(s)}

Fail(e, why) == bad' = why \o " @line " \o ToString(l) /\ UNCHANGED svars

Step(e) ==
  CASE e.ev = "Reset" ->
         /\ disk' = [f \in File |-> None] /\ open' = [f \in File |-> None] /\ root' = ""
         /\ published' = [f \in File |-> NoPub] /\ pending' = <<>> /\ bad' = ""
    [] e.ev = "End" ->
         /\ PrintT("@@" \o ToJson([run |-> e.run, verdict |-> IF bad = "" THEN "accepted" ELSE "rejected", why |-> bad]))
         /\ UNCHANGED <<svars, bad>>
    [] bad # "" -> UNCHANGED <<svars, bad>>                         \* skip the rest of a rejected run
    [] e.ev = "Disk"   -> DiskWrite(e.file, IF e.t.k < 0 THEN None ELSE Text(e)) /\ bad' = bad
    [] e.ev = "Open"   -> Open(e.file, Text(e)) /\ bad' = bad
    [] e.ev = "Change" -> IF open[e.file] # None THEN Change(e.file, Text(e)) /\ bad' = bad
                          ELSE Fail(e, "change-of-unopened-document")
    [] e.ev = "Publish" ->
         IF e.file \notin File THEN Fail(e, "publish-for-unknown-file:" \o e.file)
         ELSE IF PublishOk(e.file, e.version) THEN Publish(e.file, e.version, ToSetOf(e.markers)) /\ bad' = bad
         ELSE Fail(e, "version-decreased file=" \o e.file)
    [] e.ev = "Request" -> Request(e.id, e.kind, e.file) /\ bad' = bad
    [] e.ev = "Response" ->
         IF e.id \notin DOMAIN pending THEN Fail(e, "response-without-request")
         ELSE IF RespondOk(e.id, ToSetOf(e.markers)) THEN Respond(e.id, ToSetOf(e.markers)) /\ bad' = bad
         ELSE Fail(e, "buffer-not-source-of-truth kind=" \o pending[e.id].kind \o " file=" \o pending[e.id].file
                       \o " expected=" \o pending[e.id].expect)
    [] e.ev = "Quiet" ->
         IF ~Answered THEN Fail(e, "request-unanswered-at-quiescence")
         ELSE IF e.conv /\ ~Converges THEN       \* (conv = FALSE: the run is evaluated for C12 only, see to_trace)
              LET f == CHOOSE g \in File : published[g].set # Diag(g) IN
              Fail(e, "diagnostics-not-converged file=" \o f \o
                      (IF f \notin Reach THEN " stale-outside-workspace" ELSE IF Diag(f) \subseteq published[f].set THEN " stale-extra" ELSE " missing"))
         ELSE UNCHANGED <<svars, bad>>
    [] e.ev = "NoQuiescence" -> Fail(e, "server-not-quiescent")
    [] e.ev = "Crash" -> Fail(e, "server-crashed")
    [] OTHER -> Fail(e, "unknown-event:" \o e.ev)

TInit == Init /\ l = 1 /\ bad = ""
TNext == l <= Len(Rec) /\ Step(Rec[l]) /\ l' = l + 1
TSpec == TInit /\ [][TNext]_vars
AllConsumed == TLCGet("stats").diameter = Len(Rec) + 1
=============================================================================
