----------------------------- MODULE LineIndex -----------------------------
(***************************************************************************)
(* Reference semantics of the conversion between byte offsets and LSP      *)
(* positions (C10; also the reference mapper behind C09).                  *)
(*                                                                         *)
(* A text is a sequence of character classes; a class says how many UTF-8  *)
(* bytes and UTF-16 code units one character takes and whether it is a     *)
(* line feed or a carriage return:                                         *)
(*   "a" letter  "s" space  "LF"  "CR"  "b2" 2-byte  "b3" 3-byte           *)
(*   "b4" 4-byte (astral: 2 UTF-16 units)  "FF" form feed  "LS" U+2028     *)
(* (FF and U+2028 are NOT line terminators in LSP; some libraries count    *)
(* them.)  Lines end at LF, CR LF, or a CR not followed by LF.             *)
(*                                                                         *)
(* TLC enumerates every text up to MaxLen and emits, per text, the full    *)
(* expected tables  offset -> (line, column)  and  (line, column) ->       *)
(* offset; the harness compares the real lsp::to_proto / from_proto        *)
(* against them, entry by entry.  The algebraic laws the statement lists   *)
(* (round trip, clamping, monotonicity) are checked on the spec itself.    *)
(***************************************************************************)
EXTENDS Naturals, Integers, Sequences, FiniteSets, TLC, Json, IOUtils

CONSTANT MaxLen
Class == {"a", "s", "LF", "CR", "b2", "b3", "b4", "FF", "LS"}
U8(c)  == CASE c = "b2" -> 2 [] c = "b3" -> 3 [] c = "LS" -> 3 [] c = "b4" -> 4 [] OTHER -> 1
U16(c) == IF c = "b4" THEN 2 ELSE 1

\* besides the exhaustive enumeration, longer seeded texts can be supplied by the orchestrator
Given == IF "TEXTS" \in DOMAIN IOEnv /\ IOEnv.TEXTS # "" THEN JsonDeserialize(IOEnv.TEXTS) ELSE <<>>
VARIABLE text
Init == IF Given = <<>> THEN text \in UNION {[1..n -> Class] : n \in 0..MaxLen}
        ELSE \E k \in 1..Len(Given) : text = Given[k]
Next == UNCHANGED text
Spec == Init /\ [][Next]_text

N == Len(text)
\* byte offset of the boundary before character i (i = N + 1: end of text)
RECURSIVE Off(_)
Off(i) == IF i = 1 THEN 0 ELSE Off(i - 1) + U8(text[i - 1])
\* character i terminates a line (for CR LF it is the LF that terminates)
Terminates(i) == \/ text[i] = "LF"
                 \/ text[i] = "CR" /\ ~(i < N /\ text[i + 1] = "LF")
\* index of the first character of the line containing boundary i  (boundary i = before character i)
RECURSIVE LineStartOf(_)
LineStartOf(i) == IF i = 1 THEN 1 ELSE IF Terminates(i - 1) THEN i ELSE LineStartOf(i - 1)
LineOf(i) == Cardinality({j \in 1..(i - 1) : Terminates(j)})
RECURSIVE Units(_, _)
Units(i, j) == IF i >= j THEN 0 ELSE U16(text[i]) + Units(i + 1, j)           \* UTF-16 units of characters i..j-1
ColOf(i) == Units(LineStartOf(i), i)
\* offset -> position, for every character boundary
ToPos(i) == [off |-> Off(i), line |-> LineOf(i), col |-> ColOf(i)]

NumLines == LineOf(N + 1) + 1
LineStarts == {i \in 1..(N + 1) : LineStartOf(i) = i}
StartOfLine(l) == CHOOSE i \in LineStarts : LineOf(i) = l
\* first boundary at which the line's content ends: before its terminator (CR of CR LF included), or end of text
RECURSIVE ContentEnd(_)
ContentEnd(i) == IF i > N \/ text[i] \in {"LF", "CR"} THEN i ELSE ContentEnd(i + 1)
\* position -> boundary: walk the line's content while the column is not reached; past the end means the end
RECURSIVE Walk(_, _, _)
Walk(i, endI, col) == IF i >= endI \/ col <= 0 THEN i ELSE Walk(i + 1, endI, col - U16(text[i]))
InsideSurrogate(l, col) == LET s == StartOfLine(l) IN
                           \E i \in s..(ContentEnd(s) - 1) : U16(text[i]) = 2 /\ Units(s, i) + 1 = col
FromPos(l, col) == LET s == StartOfLine(l) IN Off(Walk(s, ContentEnd(s), col))
LineLen16(l) == LET s == StartOfLine(l) IN Units(s, ContentEnd(s))

\* boundaries strictly inside a CR LF pair have a position but no position maps back to them
InsideCRLF(i) == i > 1 /\ i <= N /\ text[i - 1] = "CR" /\ text[i] = "LF"

(* ---------------- laws checked on the reference itself ---------------- *)
RoundTrip  == \A i \in 1..(N + 1) : ~InsideCRLF(i) => FromPos(LineOf(i), ColOf(i)) = Off(i)
Monotone   == \A i, j \in 1..(N + 1) : i < j =>
                 (LineOf(i) < LineOf(j) \/ (LineOf(i) = LineOf(j) /\ ColOf(i) < ColOf(j)))
PastEndIsLineEnd == \A l \in 0..(NumLines - 1) : FromPos(l, LineLen16(l) + 1) = FromPos(l, LineLen16(l))
                                                  /\ FromPos(l, LineLen16(l) + 7) = FromPos(l, LineLen16(l))
OnlyLfCrCrlfEndLines == NumLines = 1 + Cardinality({i \in 1..N : text[i] = "LF"})
                                     + Cardinality({i \in 1..N : text[i] = "CR" /\ ~(i < N /\ text[i + 1] = "LF")})
\* the parameterised formulation used on recorded data (PosRef.tla, C09) is the same function
PR == INSTANCE PosRef
AgreesWithPosRef == \A i \in 1..(N + 1) : PR!Pos(text, Off(i)) = <<LineOf(i), ColOf(i)>>
Laws == RoundTrip /\ Monotone /\ PastEndIsLineEnd /\ OnlyLfCrCrlfEndLines /\ AgreesWithPosRef

(* ---------------- the expected tables, one JSON line per text ---------------- *)
ToTable   == [i \in 1..(N + 1) |-> <<Off(i), LineOf(i), ColOf(i)>>]
FromCells == {<<l, c>> : l \in 0..(NumLines - 1), c \in 0..(2 * N + 2)}
FromTable == {<<p[1], p[2], FromPos(p[1], p[2])>> : p \in {q \in FromCells : q[2] <= LineLen16(q[1]) + 1 /\ ~InsideSurrogate(q[1], q[2])}}
Emit == PrintT("@@" \o ToJson([text |-> text, to |-> ToTable, from |-> FromTable]))
=============================================================================
