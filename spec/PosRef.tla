------------------------------- MODULE PosRef -------------------------------
(***************************************************************************)
(* The reference position mapper of LineIndex.tla as functions of a text   *)
(* (sequence of character classes) and a BYTE offset, for use on recorded  *)
(* data (C09).  LineIndex.tla checks that both formulations agree.         *)
(***************************************************************************)
EXTENDS Naturals, Integers, Sequences

U8(c)  == CASE c = "b2" -> 2 [] c = "b3" -> 3 [] c = "LS" -> 3 [] c = "b4" -> 4 [] OTHER -> 1
U16(c) == IF c = "b4" THEN 2 ELSE 1
\* scan: position <<line, col16>> of byte offset `off` in T (off on a character boundary, 0 <= off <= byte length)
RECURSIVE Scan(_, _, _, _, _, _)
Scan(T, i, b, line, col, off) ==
   IF b >= off \/ i > Len(T) THEN <<line, col>>
   ELSE LET c == T[i]
            ends == c = "LF" \/ (c = "CR" /\ ~(i < Len(T) /\ T[i + 1] = "LF")) IN
        IF ends THEN Scan(T, i + 1, b + U8(c), line + 1, 0, off)
        ELSE Scan(T, i + 1, b + U8(c), line, col + U16(c), off)
Pos(T, off) == Scan(T, 1, 0, 0, 0, off)
RECURSIVE Bytes(_, _)
Bytes(T, i) == IF i > Len(T) THEN 0 ELSE U8(T[i]) + Bytes(T, i + 1)
=============================================================================
