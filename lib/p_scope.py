"""C05 (name resolution), C18 (outline and folding), C19 (hover and inlay hints), driven by spec/Scope.tla.
TLC generates abstract programs (events) with the reference resolution of every use; the renderer below turns them
into TableGen text (optional syntax, comments, doc comments, a split into an included file) and records where every
site ended up; the real analysis is queried and compared with what the events carry."""
import json
import os
import random

import common
from common import log, Verdict, ToolError

W = "/w"


class Rendered:
    pass


LEX = {"a": "argA", "d": "dd", "e": "ee", "x": "xx", "f": "fval", "g": "gval", "v": "vv", "w": "ww", "i": "idx", "p": "pv", "q": "acc",
       "A": "Alpha", "B": "Beta", "C": "Gamma", "M": "Multi"}
LX = lambda n: LEX.get(n, n)


BANG = {("foreach", 0): "!foreach(%(p)s , [1, 2], %(pu)s)", ("foreach", 1): "!foreach(%(p)s, [1, 2], !add(%(pu)s, 1))",
        ("foreach", 2): "!foreach(%(p)s, [1, 2], !cond(%(pu)s: 1, 1: 2))",
        ("filter", 0): "!filter(%(p)s, [1, 2], !eq(%(pu)s, 1))", ("filter", 1): "!filter(%(p)s /* v */ , [1, 2], %(pu)s)",
        ("filter", 2): "!filter(%(p)s, [1, 2], !cond(%(pu)s: 1, 1: 0))",
        ("foldl", 0): "!foldl(0, [1, 2], %(q)s, %(p)s, !add(%(qu)s, %(pu)s))", ("foldl", 1): "!foldl(0, [1, 2], %(q)s /* acc */ , %(p)s , %(qu)s)",
        ("foldl", 2): "!foldl(0, [1, 2], %(q)s, %(p)s, !cond(%(pu)s: %(qu)s, 1: 0))"}


def render(b, rng, split=True, docs=True, mode="lib"):
    prog = b["prog"]
    closers = list(reversed(b.get("open", [])))
    events = list(prog) + [{"e": "Close", "kind": k, "auto": True} for k in closers]
    # ---- statement-level structure: find top-level statement boundaries for the file split
    out = []                 # list of (text, site id or None) pieces of the CURRENT file
    files = {"main": [], "lib": []}
    cur = "lib" if split else "main"
    R = Rendered()
    R.sites, R.uses, R.dead, R.decl, R.hints, R.folds, R.outline, R.docs, R.lets = {}, [], [], {}, [], [], {"main": [], "lib": []}, {}, []
    R.sigs = {}
    R.amb, R.letsig = [], {}
    R.types = {}
    R.ambiguous_children = set()
    depth = 0
    stack = []               # open statements: dict(kind, start piece index, file, outline node, empty)
    top_count = sum(1 for e in events if e["e"] not in ("Close",)) or 1
    nstmt_top = 0
    split_at = rng.randrange(0, 4) if split else 0
    seen_top = 0
    ind = lambda: "  " * depth

    def emit(text, site=None):
        files[cur].append((text, site))
    lead = {f: (rng.random() < 0.3) for f in ("lib", "main")}       # a file may start with a line break (then the first doc comment)
    started = set()

    # declared type of the fields, by name, for this program: int, or bits<8> (then a let may override a part of it only)
    # (one width per program: a bits<1> value does not fit a bits<8> field)
    width = rng.choice(["bits<8>", "bits<8>", "bits<1>"])
    ftype = {n: (width if rng.random() < 0.35 else "int") for n in ("f", "g")}
    typed_classes = []          # (rendered name, declaration site) of the classes with template parameters declared so far
    extra_site = [1000000]      # sites the renderer adds on its own (not part of the abstract program)

    def val(v):
        if v["k"] == "lit":
            emit(str(rng.choice([1, 2, 7, 42])))
        else:
            emit(LX(v["n"]), v["site"])
            if v["k"] == "use":
                R.uses.append((v["site"], v["tgt"], "value"))
            elif v["k"] == "amb":
                R.amb.append(v["site"])
            else:
                R.dead.append((v["site"], v["n"]))

    def pargs(args, owner):
        if not args:
            return
        emit("<")
        for j, a in enumerate(args):
            if j:
                emit(", ")
            # hint position = first character of the argument
            R.hints.append((cur, len(files[cur]), LX(a["hint"]) + ":", owner))
            if a["k"] == "lit" and typed_classes and rng.random() < 0.2:
                # the argument is a typed bang operator whose annotation names another class with template parameters: a use of
                # that class, no hint of its own
                cname, csite = rng.choice(typed_classes)
                extra_site[0] += 1
                emit(rng.choice(["!isa<", "!isa< "]))
                emit(cname, extra_site[0])
                R.uses.append((extra_site[0], csite, "type-annotation"))
                emit(">(1)")
            else:
                val(a)
        emit(">")

    def doc(site, kind):
        if not docs or rng.random() < 0.5:
            return
        n = rng.randrange(1, 4)
        gap = rng.random() < 0.3
        block = rng.random() < 0.15
        lines = ["doc %d of %s" % (j, site) for j in range(n)]
        for l in lines:
            emit(ind() + ("/* %s */" % l if block else "// " + l) + "\n")
        if gap:
            emit("\n")
        R.docs[site] = None if (gap or block) else "\n".join(lines)

    def open_stmt(kind, node=None):
        stack.append({"kind": kind, "file": cur, "start": len(files[cur]), "node": node, "items": 0})

    for ev in events:
        e = ev["e"]
        if depth == 0 and e != "Close" and not (e == "BlockOpen" and ev["kind"] == "else"):
            if split and cur == "lib" and seen_top >= split_at:
                cur = "main"
            seen_top += 1
        if cur not in started:
            started.add(cur)
            if lead[cur] and not (split and cur == "main"):
                emit("\n")
        if e == "ClassOpen":
            if docs and rng.random() < 0.12:
                # optional syntax: the class is forward-declared right before it is defined - a declaration of its own in the
                # outline (no children), a statement of its own for folding, no uses (every use comes after the definition)
                extra_site[0] += 1
                fs = extra_site[0]
                R.outline[cur].append({"kind": "Class", "name": LX(ev["c"]), "site": fs, "children": []})
                emit(ind())
                a0 = len(files[cur])
                emit("class ")
                emit(LX(ev["c"]), fs)
                emit(";")
                R.folds.append((cur, a0, len(files[cur])))
                emit("\n")
                R.decl[fs] = ("class", ev["c"])
                R.sigs[fs] = "class %s" % LX(ev["c"])
            doc(ev["site"], "class")
            node = {"kind": "Class", "name": LX(ev["c"]), "site": ev["site"], "children": []}
            (stack[-1]["node"]["children"] if False else R.outline[cur]).append(node)
            emit(ind())
            open_stmt("class", node)
            emit("class ")
            emit(LX(ev["c"]), ev["site"])
            R.decl[ev["site"]] = ("class", ev["c"])
            if ev["targs"]:
                emit("<")
                for j, t in enumerate(ev["targs"]):
                    if j:
                        emit(", ")
                    emit("int ")
                    emit(LX(t["n"]), t["site"])
                    R.decl[t["site"]] = ("targ", t["n"])
                    R.sigs[t["site"]] = "int %s" % LX(t["n"])
                    node["children"].append({"kind": "TemplateArgument", "name": LX(t["n"]), "site": t["site"]})
                emit(">")
                typed_classes.append((LX(ev["c"]), ev["site"]))
            R.sigs[ev["site"]] = "class %s%s" % (LX(ev["c"]), "<%s>" % ", ".join("int " + LX(t["n"]) for t in ev["targs"]) if ev["targs"] else "")
            if ev["parent"]:
                emit(" : ")
                emit(LX(ev["parent"]), ev["psite"])
                R.uses.append((ev["psite"], ev["ptgt"], "parent-class"))
                pargs(ev["pargs"], ev["psite"])
            emit(" {\n")
            depth += 1
        elif e == "DefOpen":
            doc(ev["site"], "def")
            node = {"kind": "Def", "name": LX(ev["d"]), "site": ev["site"], "children": []}
            ds = next((s for s in reversed(stack) if s["kind"] == "defset"), None)
            (ds["node"]["children"] if ds else R.outline[cur]).append(node)
            emit(ind())
            open_stmt("def", node)
            emit("def ")
            emit(LX(ev["d"]), ev["site"])
            R.decl[ev["site"]] = ("def", ev["d"])
            R.sigs[ev["site"]] = "def %s" % LX(ev["d"])
            R.types[ev["site"]] = LX(ev["d"])
            if ev["parent"]:
                emit(" : ")
                emit(LX(ev["parent"]), ev["psite"])
                R.uses.append((ev["psite"], ev["ptgt"], "parent-class"))
                pargs(ev["pargs"], ev["psite"])
            emit(" {\n")
            depth += 1
        elif e == "Field":
            doc(ev["site"], "field")
            fty = ftype.get(ev["f"], "int")
            emit(ind() + ("field " if rng.random() < 0.2 else "") + fty + " ")
            emit(LX(ev["f"]), ev["site"])
            R.decl[ev["site"]] = ("field", ev["f"])
            R.types[ev["site"]] = fty
            R.sigs[ev["site"]] = "%s %s::%s" % (fty, LX(ev["rec"]), LX(ev["f"]))
            emit(" = ")
            val(ev["val"])
            emit(";\n")
            rec = next(s for s in reversed(stack) if s["kind"] in ("class", "def"))
            rec["node"]["children"].append({"kind": "Field", "name": LX(ev["f"]), "site": ev["site"]})
        elif e == "Let":
            emit(ind() + "let ")
            emit(LX(ev["f"]), ev["site"])
            R.uses.append((ev["site"], ev["tgt"], "let-name"))
            fty = ftype.get(ev["f"], "int")
            R.lets.append((cur, len(files[cur]), ":" + fty, ev["site"]))
            if fty != "int" and rng.random() < 0.5:
                emit(rng.choice(["{3-0}", "{7...4}", "{0}", "{1, 0}"]) if fty == "bits<8>" else "{0}")     # only some bits: the declared type stays
            emit(" = ")
            val(ev["val"])
            emit(";\n")
            rec = next(s for s in reversed(stack) if s["kind"] in ("class", "def"))
            R.letsig[ev["site"]] = "%s %s::%s" % (fty, rec["node"]["name"], LX(ev["f"]))
            if any(c["name"] == LX(ev["f"]) for c in rec["node"]["children"]):
                R.ambiguous_children.add(rec["node"]["site"])      # declared and overridden in the same body: ambiguity zone
            rec["node"]["children"].append({"kind": "Field", "name": LX(ev["f"]), "site": ev["site"]})
        elif e == "Defvar":
            doc(ev["site"], "defvar")
            emit(ind() + "defvar ")
            emit(LX(ev["v"]), ev["site"])
            R.decl[ev["site"]] = ("defvar", ev["v"])
            vt = (ftype.get(ev["val"]["n"], "int") if ev["val"]["k"] == "amb" else
                  "int" if ev["val"]["k"] != "use" else R.types.get(ev["val"]["tgt"], "int"))
            R.types[ev["site"]] = vt
            R.sigs[ev["site"]] = "%s %s" % (vt, LX(ev["v"]))
            emit(" = ")
            val(ev["val"])
            emit(";\n")
        elif e == "ForeachOpen":
            emit(ind())
            open_stmt("foreach")
            emit("foreach ")
            emit(LX(ev["i"]), ev["site"])
            R.decl[ev["site"]] = ("iter", ev["i"])
            R.sigs[ev["site"]] = "int %s" % LX(ev["i"])
            emit(" = [1, 2] in {\n")
            depth += 1
        elif e == "BlockOpen":
            k = ev["kind"]
            if k == "if":
                emit(ind())
                open_stmt("if")
                emit("if ")
                val(ev["val"])
                emit(" then {\n")
            elif k == "else":
                # continues the if statement that was just closed
                st = R.last_closed
                stack.append(st)
                R.folds.remove(st["fold"])
                emit(ind() + "else {\n")
            elif k == "letin":
                emit(ind())
                open_stmt("letin")
                emit("let zz = ")
                val(ev["val"])
                emit(" in {\n")
            elif k == "defset":
                doc(ev["site"], "defset")
                name = "s%d" % ev["site"]
                node = {"kind": "Defset", "name": name, "site": ev["site"], "children": []}
                R.outline[cur].append(node)
                emit(ind())
                open_stmt("defset", node)
                emit("defset list<")
                emit(LX(ev["ty"]), ev["tysite"])
                R.uses.append((ev["tysite"], ev["tytgt"], "defset-type"))
                emit("> ")
                emit(name, ev["site"])
                R.decl[ev["site"]] = ("defset", name)
                R.sigs[ev["site"]] = "list<%s> %s" % (LX(ev["ty"]), name)
                emit(" = {\n")
            depth += 1
        elif e == "McOpen":
            doc(ev["site"], "multiclass")
            node = {"kind": "Multiclass", "name": LX(ev["m"]), "site": ev["site"], "children": []}
            R.outline[cur].append(node)
            emit(ind())
            open_stmt("multiclass", node)
            emit("multiclass ")
            emit(LX(ev["m"]), ev["site"])
            R.decl[ev["site"]] = ("multiclass", ev["m"])
            R.sigs[ev["site"]] = "multiclass %s" % LX(ev["m"])
            if ev["targs"]:
                emit("<")
                for j, t in enumerate(ev["targs"]):
                    if j:
                        emit(", ")
                    emit("int ")
                    emit(LX(t["n"]), t["site"])
                    R.decl[t["site"]] = ("targ", t["n"])
                    R.sigs[t["site"]] = "int %s" % LX(t["n"])
                emit(">")
            emit(" {\n")
            depth += 1
        elif e == "Defm":
            emit(ind() + "defm ")
            emit(LX(ev["d"]), ev["site"])
            R.decl[ev["site"]] = ("defm", ev["d"])
            R.sigs[ev["site"]] = "defm %s" % LX(ev["d"])
            emit(" : ")
            emit(LX(ev["m"]), ev["msite"])
            R.uses.append((ev["msite"], ev["mtgt"], "defm-multiclass"))
            pargs(ev["pargs"], ev["msite"])
            emit(";\n")
        elif e == "BangStmt":
            s0 = ev["site"]
            if ev["op"] == "foldl":
                sites_ = {"q": s0, "p": s0 + 1, "qu": s0 + 2, "pu": s0 + 3}
                R.decl[s0] = ("bangvar", "q")
                R.decl[s0 + 1] = ("bangvar", "p")
                R.sigs[s0], R.sigs[s0 + 1] = "int " + LX("q"), "int " + LX("p")
                R.uses.append((s0 + 2, s0, "value"))
                if ev["form"] != 1:
                    R.uses.append((s0 + 3, s0 + 1, "value"))
            else:
                sites_ = {"p": s0, "pu": s0 + 1}
                R.decl[s0] = ("bangvar", "p")
                R.sigs[s0] = "int " + LX("p")
                R.uses.append((s0 + 1, s0, "value"))
            emit(ind() + "dump ")
            tmpl = BANG[(ev["op"], ev["form"])]
            # split the template at the placeholders so that every identifier occurrence is a piece of its own
            import re as _re
            pos = 0
            for m in _re.finditer(r"%\((\w+)\)s", tmpl):
                emit(tmpl[pos:m.start()])
                key = m.group(1)
                emit(LX(key[0]), sites_[key])
                pos = m.end()
            emit(tmpl[pos:])
            emit(";\n")
        elif e == "ValStmt":
            emit(ind() + ("dump " if ev["kind"] == "dump" else "assert "))
            val(ev["val"])
            emit(', "m";\n' if ev["kind"] == "assert" else ";\n")
        elif e == "Close":
            st = stack.pop()
            depth -= 1
            if st["kind"] == "multiclass" and ev.get("auto") and files[st["file"]][-1][0].endswith("{\n"):
                emit(ind() + "  ")
                a0 = len(files[cur])
                emit("def;")             # a multiclass body needs a statement: an anonymous def (a statement of its own: one more fold)
                R.folds.append((cur, a0, len(files[cur])))
                emit("\n")
            emit(ind())
            emit("}")
            st["fold"] = (st["file"], st["start"], len(files[st["file"]]))
            R.folds.append(st["fold"])
            R.last_closed = st
            emit("\n")
            # preprocessor directives are trivia: a fold ends at the statement's last non-trivia token, before them
            if docs and rng.random() < 0.12:
                emit(ind() + rng.choice(["#define Z%d\n" % len(files[cur]), "#ifdef UNDEFINED_Z\nclass Hidden; def hidden;\n#endif\n",
                                         "#ifndef UNDEFINED_Z\n#endif\n"]))
        if stack:
            stack[-1]["items"] += 1
    # ---- assemble texts, compute byte ranges
    files["mid"] = []
    if split:
        head = {"lib": ['include "lib.td"\n'], "lib-twice": ['include "lib.td"\n', 'include "lib.td"\n'],
                "diamond": ['include "mid.td"\n', 'include "lib.td"\n'], "diamond2": ['include "lib.td"\n', 'include "mid.td"\n'],
                "subdir": ['include "sub/mid.td"\n']}[mode]
        for h in reversed(head):
            files["main"].insert(0, (h, None))
        shift = len(head)
        if mode.startswith("diamond") or mode == "subdir":
            files["mid"] = [('include "lib.td"\n', None)]      # (subdir: a bare name, resolved next to mid.td itself first)
    else:
        shift = 0
    R.text, R.range = {}, {}
    piece_off = {}
    for f in ("lib", "mid", "main"):
        off = 0
        offs = []
        for (t, s) in files[f]:
            offs.append(off)
            if s is not None:
                R.sites[s] = (f, off, off + len(t.encode()))
            off += len(t.encode())
        offs.append(off)
        piece_off[f] = offs
        R.text[f] = "".join(t for t, _s in files[f])
    sh = lambda f, i: piece_off[f][i + (shift if f == "main" else 0)]
    R.hints = [(f, sh(f, i), label, owner) for (f, i, label, owner) in R.hints]
    R.lets = [(f, R.sites[site][2], label, site) for (f, i, label, site) in R.lets]
    fl = []
    for (f, a, z) in R.folds:
        s0 = sh(f, a)
        # a fold starts at the statement's first token (after the indentation piece)
        txt = R.text[f]
        while txt[s0:s0 + 1] in (" ", "\n"):
            s0 += 1
        fl.append((f, s0, sh(f, z)))
    R.folds = fl
    R.split = split
    R.mode = mode if split else "none"
    owner_kind = {}
    for ev in events:
        if ev["e"] == "Defm":
            owner_kind[ev["msite"]] = "defm"
    R.decl_kind_of_owner = lambda o: owner_kind.get(o, "class")
    return R


def path(f, R=None):
    # mode "subdir": lib.td and mid.td live in a sub-directory, and a decoy lib.td sits next to the root
    if R is not None and getattr(R, "mode", "") == "subdir" and f in ("lib", "mid"):
        return "%s/sub/%s.td" % (W, f)
    return "%s/%s.td" % (W, f)


def queries_for(R):
    q = []
    for f in ("main", "lib"):
        if not R.text[f] and f == "lib":
            continue
        for m in ("documentSymbol", "foldingRange", "inlayHint", "diagnostics"):
            q.append({"m": m, "path": path(f, R), "tag": [m, f]})
    # inlay hints for sub-ranges: whole lines that carry hints; a range ending strictly inside an overridden field's name;
    # a range that is exactly the class name of a reference with arguments
    for f in ("main", "lib"):
        txt = R.text[f].encode()
        for (ff, pos, lab, owner) in [h for h in R.hints if h[0] == f] + [h for h in R.lets if h[0] == f]:
            ls = txt.rfind(b"\n", 0, pos) + 1
            le = txt.find(b"\n", pos)
            le = len(txt) if le < 0 else le
            q.append({"m": "inlayHint", "path": path(f, R), "range": [ls, le], "tag": ["hintrange", f, ls, le]})
            of, os_, oe = R.sites[owner]
            if oe - os_ >= 2:
                q.append({"m": "inlayHint", "path": path(f, R), "range": [ls, os_ + 1], "tag": ["hintrange", f, ls, os_ + 1]})
                q.append({"m": "inlayHint", "path": path(f, R), "range": [os_, oe - 1], "tag": ["hintrange", f, os_, oe - 1]})
    for (site, tgt, kind) in R.uses:
        f, s, e = R.sites[site]
        for off in sorted({s, (s + e) // 2, e - 1}):
            q.append({"m": "definition", "path": path(f, R), "off": off, "tag": ["use", site]})
        q.append({"m": "hover", "path": path(f, R), "off": s, "tag": ["hover", site]})
    for (site, n) in R.dead:
        f, s, e = R.sites[site]
        q.append({"m": "definition", "path": path(f, R), "off": s, "tag": ["dead", site]})
    for site in R.amb:
        f, s, e = R.sites[site]
        q.append({"m": "definition", "path": path(f, R), "off": s, "tag": ["ambdef", site]})
        q.append({"m": "hover", "path": path(f, R), "off": s, "tag": ["ambhover", site]})
    for site in R.decl:
        f, s, e = R.sites[site]
        q.append({"m": "references", "path": path(f, R), "off": s, "tag": ["refs", site]})
        q.append({"m": "definition", "path": path(f, R), "off": s, "tag": ["decl", site]})
        q.append({"m": "hover", "path": path(f, R), "off": s, "tag": ["hoverdecl", site]})
    return q


def item_for(i, R):
    files = {path("main"): R.text["main"]}
    if R.split:
        files[path("lib", R)] = R.text["lib"]
        if R.text["mid"]:
            files[path("mid", R)] = R.text["mid"]
        if R.mode == "subdir":
            files[W + "/lib.td"] = "class Decoy_ { int decoy_ = 1; }\ndef decoy_d : Decoy_;\n"       # must never be picked
    return {"id": i, "kind": "idequery", "files": files, "root": path("main"), "queries": queries_for(R)}


def tlc_programs(tier, seed, wd):
    quick = tier == "quick"
    cfg = ('SPECIFICATION Spec\nCONSTANTS\n  MaxEvents = %d\n  Focus = "all"\nINVARIANT EmitProgram\nINVARIANT TargetsAreDeclarations\n'
           'CHECK_DEADLOCK FALSE\n')
    cfgn = cfg.replace('"all"', '"nest"')
    out, states, trans = [], 0, 0
    for n, keep in ((2, 1), (3, 4 if quick else 1), (4, 150 if quick else 10)):
        r = common.run_tlc("Scope.tla", cfg % n, os.path.join(wd, "sc%d" % n), workers=8, timeout=3600, keep_one_in=keep)
        common.tlc_must(r, "Scope %d" % n)
        out += sorted(r.records, key=lambda x: json.dumps(x, sort_keys=True))
        states += r.distinct
        trans += r.generated
    # long programs: seeded random walks of the same generator
    for depth, num in ((9, 40 if quick else 400), (16, 30 if quick else 300), (28, 20 if quick else 200)):
        r = common.run_tlc("Scope.tla", cfg % depth, os.path.join(wd, "sim%d" % depth), workers=1, timeout=3600, simulate=num * 8, depth=depth + 1, seed=seed)
        common.tlc_must(r, "Scope simulate %d" % depth)
        seen = {}
        for x in r.records:
            seen.setdefault(json.dumps(x, sort_keys=True), x)
        out += [seen[k_] for k_ in sorted(seen)]
        states += r.generated
        trans += r.generated
    # statement nesting in depth (nested defsets, defs after an inner block closed, else branches ...)
    for depth, num in ((10, 30 if quick else 300), (16, 30 if quick else 300)):
        r = common.run_tlc("Scope.tla", cfgn % depth, os.path.join(wd, "nest%d" % depth), workers=1, timeout=3600, simulate=num * 8, depth=depth + 1, seed=seed)
        common.tlc_must(r, "Scope nest %d" % depth)
        seen = {}
        for x in r.records:
            seen.setdefault(json.dumps(x, sort_keys=True), x)
        out += [seen[k_] for k_ in sorted(seen)]
        states += r.generated
        trans += r.generated
    return out, states, trans


def run_programs(tier, seed, wd):
    progs, states, trans = tlc_programs(tier, seed, wd)
    rng = random.Random("%d/scope" % seed)
    rs, items = [], []
    for i, b in enumerate(progs):
        R = render(b, rng, split=rng.random() < 0.45, docs=True, mode=rng.choice(["lib", "lib", "lib-twice", "diamond", "diamond2", "subdir"]))
        rs.append(R)
        items.append(item_for(i, R))
    log("%d programs generated by TLC (%d states)" % (len(progs), states))
    recs, _ = common.run_harness(items, wd, "scope", timeout_ms=30000)
    return progs, rs, items, recs, states, trans


def loc(R, site):
    f, s, e = R.sites[site]
    return [path(f, R), s, e]


def check_c05(tier, seed):
    v = Verdict("C05", tier, seed)
    wd = common.workdir("C05-%s" % tier)
    progs, rs, items, recs, states, trans = run_programs(tier, seed, wd)
    nuse = ndead = nrefs = 0
    kinds = {}
    for b, R, it, rec in zip(progs, rs, items, recs):
        replay = {"behaviour": b, "files": it["files"]}
        if rec.get("outcome") != "Ok":
            v.report("C05 outcome=%s " % rec.get("outcome"), {}, replay)
            continue
        ans = {}
        for q, a in zip(it["queries"], rec["answers"]):
            ans.setdefault(tuple(q["tag"]), []).append(a)
        tgt_uses = {}
        for (site, tgt, kind) in R.uses:
            nuse += 1
            dk = R.decl.get(tgt, ("?", "?"))[0]
            kinds[(kind, dk)] = kinds.get((kind, dk), 0) + 1
            tgt_uses.setdefault(tgt, []).append(site)
            exp = [loc(R, tgt)]
            for a in ans[("use", site)]:
                if a != exp:
                    got = "nothing" if a is None else ("another-declaration" if any(a[0] == loc(R, d) for d in R.decl) else "a-non-declaration")
                    v.report("C05 use=%s of=%s resolves-to=%s" % (kind, dk, got),
                             {"site": loc(R, site), "expected": exp, "got": a, "text": R.text[R.sites[site][0]]}, replay)
                    break
        diag_msgs = []
        for f in ("main", "lib"):
            for d in (ans.get(("diagnostics", f)) or [[]])[0] or []:
                diag_msgs.append(d)
        expected_diags = []
        for (site, n) in R.dead:
            ndead += 1
            a = ans[("dead", site)][0]
            if a is not None:
                v.report("C05 name-used-after-its-construct-ended resolves", {"name": n, "site": loc(R, site), "got": a,
                                                                              "text": R.text[R.sites[site][0]]}, replay)
            # (the wording of the message is not part of the property: any diagnostic exactly on the use counts)
            here = [d for d in diag_msgs if d[:3] == loc(R, site)]
            expected_diags.extend(here)
            if not here:
                v.report("C05 name-used-after-its-construct-ended not-reported", {"name": n, "site": loc(R, site), "diagnostics": diag_msgs[:5],
                                                                                 "text": R.text[R.sites[site][0]]}, replay)
        extra = [d for d in diag_msgs if d not in expected_diags]
        if extra:
            v.report("C05 unexpected-diagnostic msg=%s" % common.clip(extra[0][3].split(":")[0], 40), {"diagnostics": extra[:4],
                                                                                                      "text": R.text["main"]}, replay)
        for site, (dk, name) in R.decl.items():
            nrefs += 1
            amb_locs = [loc(R, u) for u in R.amb]
            got = sorted(g for g in (ans[("refs", site)][0] or []) if g not in amb_locs)     # uses in the ambiguity zone: no expectation
            exp = sorted(loc(R, u) for u in tgt_uses.get(site, []))
            if got != exp:
                v.report("C05 references-of=%s %s" % (dk, "missing" if len(got) < len(exp) else "surplus" if len(got) > len(exp) else "different"),
                         {"decl": loc(R, site), "expected": exp, "got": got, "text": R.text[R.sites[site][0]]}, replay)
            d = ans[("decl", site)][0]
            if d != [loc(R, site)]:
                v.report("C05 definition-on-declaration-of=%s not-itself" % dk, {"decl": loc(R, site), "got": d}, replay)
    if not v.violations and (nuse < 200 or ndead < 20):
        raise ToolError("vacuous: %d uses, %d dead uses" % (nuse, ndead))
    cov = {"states": states, "transitions": trans, "traces_validated_against_impl": len(progs),
           "samples": [{"events": progs[i]["prog"], "main.td": rs[i].text["main"], "lib.td": rs[i].text["lib"]} for i in (len(progs) // 3, len(progs) - 1)],
           "exhaustive": False, "programs": len(progs), "use_sites": nuse, "uses_after_end": ndead, "declarations": nrefs,
           "use_kind_x_declaration_kind": {"%s->%s" % k: n for k, n in sorted(kinds.items())},
           "explanation": "Scope.tla generates programs with the reference resolution of every use (exhaustively for 2-3 events, thinned for 4, "
                          "seeded walks up to 28 events); rendered with optional syntax, doc comments and a split over an included file; "
                          "go-to-definition at first/middle/last byte of every use, references on every declaration, not-found diagnostics"}
    return v.finish("model_checking", cov, ["LLVM scoping as reference (DESIGN Appendix E); ambiguity zones are never generated"])


def flat_outline(R, f):
    out = []

    def go(n, depth):
        fsite = R.sites[n["site"]]
        out.append((n["kind"], n["name"], fsite[1], fsite[2], len(n.get("children", [])), n["site"]))
        for c in n.get("children", []):
            go(c, depth + 1)
    for n in R.outline[f]:
        go(n, 0)
    return out


def check_c18(tier, seed):
    v = Verdict("C18", tier, seed)
    wd = common.workdir("C18-%s" % tier)
    progs, rs, items, recs, states, trans = run_programs(tier, seed, wd)
    nsym = nfold = 0
    shapes = {}
    for b, R, it, rec in zip(progs, rs, items, recs):
        replay = {"behaviour": b, "files": it["files"]}
        if rec.get("outcome") != "Ok":
            v.report("C18 outcome=%s " % rec.get("outcome"), {}, replay)
            continue
        ans = {}
        for q, a in zip(it["queries"], rec["answers"]):
            ans.setdefault(tuple(q["tag"]), []).append(a)
        for f in ("main", "lib"):
            if ("documentSymbol", f) not in ans:
                continue
            got = [(x[4], x[3], x[1], x[2], x[6]) for x in (ans[("documentSymbol", f)][0] or [])]
            exp_full = flat_outline(R, f)
            # records with a field both declared and overridden in the same body: their children carry no expectation
            amb = R.ambiguous_children
            exp = [(k, n, s_, e_, c) for (k, n, s_, e_, c, site) in exp_full]
            nsym += len(exp)
            if amb:
                continue
            if got != exp:
                kinds_e = [x[0] for x in exp]
                kinds_g = [x[0] for x in got]
                names_e, names_g = [x[1] for x in exp], [x[1] for x in got]
                if sorted(names_g) != sorted(names_e):
                    missing = [n for n in names_e if n not in names_g]
                    extra = [n for n in names_g if n not in names_e]
                    k_ = next((x[0] for x in exp if x[1] in missing), None) or next((x[0] for x in got if x[1] in extra), "?")
                    what = "symbol-%s kind=%s" % ("missing" if missing else "surplus-or-duplicated", k_)
                elif names_g != names_e:
                    what = "order-differs"
                elif kinds_g != kinds_e:
                    what = "kind-differs"
                elif [x[4] for x in got] != [x[4] for x in exp]:
                    what = "children-misplaced"
                else:
                    what = "range-differs"
                v.report("C18 outline %s" % what, {"file": f, "expected": exp[:12], "got": got[:12], "text": R.text[f]}, replay)
            for x in exp_full:
                shapes[x[0]] = shapes.get(x[0], 0) + 1
        for f in ("main", "lib"):
            if ("foldingRange", f) not in ans:
                continue
            got = sorted((x[1], x[2]) for x in (ans[("foldingRange", f)][0] or []))
            exp = sorted((s_, e_) for (ff, s_, e_) in R.folds if ff == f)
            nfold += len(exp)
            if got != exp:
                starts_ok = sorted(x[0] for x in got) == sorted(x[0] for x in exp)
                what = "count-differs" if len(got) != len(exp) else ("end-differs" if starts_ok else "start-differs")
                v.report("C18 folds %s" % what, {"file": f, "expected": exp, "got": got, "text": R.text[f]}, replay)
            for (a1, b1) in got:
                for (a2, b2) in got:
                    if a1 < a2 < b1 < b2:
                        v.report("C18 folds overlap-without-nesting", {"file": f, "got": got}, replay)
    if not v.violations and (nsym < 500 or nfold < 300):
        raise ToolError("vacuous: %d symbols, %d folds" % (nsym, nfold))
    cov = {"states": states, "transitions": trans, "traces_validated_against_impl": len(progs),
           "samples": [{"main.td": rs[i].text["main"], "outline": flat_outline(rs[i], "main")} for i in (len(progs) // 2, len(progs) - 2)],
           "exhaustive": False, "programs": len(progs), "outline_symbols_compared": nsym, "folds_compared": nfold, "symbol_kinds": shapes,
           "explanation": "programs of Scope.tla (declaration kinds nested in foreach/if/else/let/defset/multiclass, optional parts present or "
                          "absent, split over included files); expected outline (order, kind, name, identifier range, children = template "
                          "arguments then fields declared or overridden; defs inside a defset are its children) and one fold per block statement "
                          "(first token to last non-trivia token, laminar) known by construction"}
    return v.finish("model_checking", cov, ["a field both declared and overridden in the same body is an ambiguity zone (children not compared)"])


def same_words(shown, expected):
    """hover / hint texts are compared by their words (kind, owner, name, declared type, in any layout), not character by character"""
    import collections
    import re
    if shown is None or expected is None:
        return shown == expected
    return collections.Counter(re.findall(r"\w+", shown)) == collections.Counter(re.findall(r"\w+", expected))


def check_c19(tier, seed):
    v = Verdict("C19", tier, seed)
    wd = common.workdir("C19-%s" % tier)
    progs, rs, items, recs, states, trans = run_programs(tier, seed, wd)
    nhover = nhint = ndoc = namb = 0
    for b, R, it, rec in zip(progs, rs, items, recs):
        replay = {"behaviour": b, "files": it["files"]}
        if rec.get("outcome") != "Ok":
            v.report("C19 outcome=%s " % rec.get("outcome"), {}, replay)
            continue
        ans = {}
        for q, a in zip(it["queries"], rec["answers"]):
            ans.setdefault(tuple(q["tag"]), []).append(a)
        probes = [(site, tgt, "use") for (site, tgt, _k) in R.uses] + [(site, site, "decl") for site in R.decl]
        for site, tgt, where in probes:
            a = ans[("hover" if where == "use" else "hoverdecl", site)][0]
            nhover += 1
            dk = R.decl.get(tgt, ("?", "?"))[0]
            sig = R.sigs.get(tgt)
            if a is None:
                v.report("C19 hover none-on-resolved-identifier of=%s" % dk, {"site": loc(R, site), "text": R.text[R.sites[site][0]]}, replay)
                continue
            if not same_words(a[0], sig):
                v.report("C19 hover signature-differs of=%s" % dk, {"expected": sig, "got": a[0], "site": loc(R, site),
                                                                     "text": R.text[R.sites[tgt][0]]}, replay)
            if tgt in R.docs or dk in ("class", "def", "field", "defset", "multiclass", "defvar", "targ"):
                want = R.docs.get(tgt)
                if want is not None:
                    ndoc += 1
                if a[1] != want:
                    v.report("C19 hover doc-comment-differs of=%s %s" % (dk, "expected-none" if want is None else ("got-none" if a[1] is None else "text")),
                             {"expected": want, "got": a[1], "decl": loc(R, tgt), "text": R.text[R.sites[tgt][0]]}, replay)
        # uses in the ambiguity zone (a field that a let on the way overrides): wherever go-to-definition lands, hover shows that symbol
        where = {tuple(loc(R, sx)): sx for sx in list(R.decl) + list(R.letsig)}
        for site in R.amb:
            d = ans[("ambdef", site)][0]
            h = ans[("ambhover", site)][0]
            if not d:
                continue
            namb += 1
            tsite = where.get(tuple(d[0]))
            want = R.letsig.get(tsite) or R.sigs.get(tsite)
            if tsite is None:
                v.report("C19 hover override-use definition-lands-on-no-declaration", {"site": loc(R, site), "definition": d, "text": R.text[R.sites[site][0]]}, replay)
            elif h is None or not same_words(h[0], want):
                v.report("C19 hover signature-differs of=%s" % ("field-override" if tsite in R.letsig else "field"),
                         {"expected": want, "got": h and h[0], "definition": d, "site": loc(R, site), "text": R.text[R.sites[site][0]]}, replay)
        for f in ("main", "lib"):
            if ("inlayHint", f) not in ans:
                continue
            got = sorted((x[1], x[3]) for x in (ans[("inlayHint", f)][0] or []))
            exp = sorted([(pos, lab) for (ff, pos, lab, owner) in R.hints if ff == f and R.decl_kind_of_owner(owner) != "defm"]
                         + [(pos, lab) for (ff, pos, lab, site) in R.lets if ff == f])
            nhint += len(exp)
            if [x[0] for x in got] != [x[0] for x in exp] or any(not same_words(g[1], e[1]) for g, e in zip(got, exp)):
                what = "missing" if len(got) < len(exp) else "surplus" if len(got) > len(exp) else (
                    "label-differs" if [x[0] for x in got] == [x[0] for x in exp] else "position-differs")
                kind = "let" if any(l.startswith(":") for _p, l in set(got) ^ set(exp)) else "template-arg"
                v.report("C19 hints %s kind=%s" % (what, kind), {"file": f, "expected": exp, "got": got, "text": R.text[f]}, replay)
            for key, a in ans.items():
                if key[0] != "hintrange" or key[1] != f:
                    continue
                rs_, re_ = key[2], key[3]
                got_r = sorted((x[1], x[3]) for x in (a[0] or []))
                exp_r = [x for x in exp if rs_ <= x[0] <= re_]
                nhint += 1
                if [x[0] for x in got_r] != [x[0] for x in exp_r] or any(not same_words(g[1], e[1]) for g, e in zip(got_r, exp_r)):
                    outside = [x for x in got_r if not (rs_ <= x[0] <= re_)]
                    v.report("C19 hints range-filter %s" % ("returns-hint-outside-range" if outside else "omits-hint-inside-range"),
                             {"file": f, "range": [rs_, re_], "expected": exp_r, "got": got_r, "text": R.text[f]}, replay)
    if not v.violations and (nhover < 1000 or nhint < 100 or ndoc < 50):
        raise ToolError("vacuous: %d hovers, %d hints, %d docs" % (nhover, nhint, ndoc))
    cov = {"states": states, "transitions": trans, "traces_validated_against_impl": len(progs),
           "samples": [{"main.td": rs[i].text["main"][:600]} for i in (len(progs) // 2,)], "exhaustive": False,
           "programs": len(progs), "hovers_compared": nhover, "override_uses_hover_vs_definition": namb, "doc_comments_expected": ndoc, "hints_compared": nhint,
           "explanation": "programs of Scope.tla; hover at every use and declaration site must show kind/name/declared type of the symbol the "
                          "reference resolution names, with exactly the contiguous // lines above its declaration (0..3 lines, blank-line gap or "
                          "block comment => none); inlay hints for the whole file = one per positional template argument (parameter name, at the "
                          "argument's first character) and one per field override (declared type, right after the field name)"}
    return v.finish("model_checking", cov, ["all declared types are int in this fragment; hints for defm arguments carry no expectation"])


def replay(prop, path_):
    d = json.load(open(path_))
    print(json.dumps({"fingerprint": d["fingerprint"], "detail": d["detail"]}, indent=1)[:4000])
    print("VIOLATION property=%s replay=%s" % (prop, path_))
    return 1
