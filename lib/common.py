"""Shared machinery of the ./check orchestrator (python3 stdlib only).

 - build the harness against /repo's current working tree
 - run TLC (model checking, generation, trace validation) and parse its output
 - known-findings matching, replay files, evidence writing
"""
import hashlib
import json
import os
import re
import shutil
import subprocess
import sys
import time

VERIF = os.path.dirname(os.path.dirname(os.path.abspath(__file__)))
SPEC = os.path.join(VERIF, "spec")
HARNESS = os.path.join(VERIF, "harness")
BIN = os.path.join(HARNESS, "target", "debug", "tgverif")
WORKROOT = os.path.join(VERIF, "work")
EVIDENCE = os.path.join(VERIF, "evidence")
REPLAY = os.path.join(VERIF, "work", "replay")
CORPUS = os.path.join(VERIF, "corpus")
REPO = "/repo"
JOBS = int(os.environ.get("VERIF_JOBS", "16"))


class ToolError(Exception):
    pass


def log(*a):
    print("[check]", *a, file=sys.stderr, flush=True)


def seed_from_env():
    try:
        return int(os.environ.get("VERIF_SEED", "1"))
    except ValueError:
        return 1


# ---------------------------------------------------------------------------------------------
# harness


def build_harness():
    lock = os.path.join(HARNESS, "Cargo.lock")
    if not os.path.exists(lock):
        shutil.copy(os.path.join(REPO, "Cargo.lock"), lock)
    import gen_walker
    gen_walker.generate()     # typed-accessor walker follows /repo's current asts! table
    env = dict(os.environ)
    env["CARGO_NET_OFFLINE"] = "true"
    t0 = time.time()
    p = subprocess.run(["cargo", "build", "--offline", "--quiet"], cwd=HARNESS, env=env,
                       stdout=subprocess.PIPE, stderr=subprocess.STDOUT, text=True)
    if p.returncode != 0:
        sys.stderr.write(p.stdout[-6000:])
        raise ToolError("harness build failed (is /repo's working tree compiling with --cfg tablegen_lsp_verif?)")
    log("harness built in %.1fs" % (time.time() - t0))


def workdir(name):
    """scratch directory of this run; removed when the process exits (VERIF_KEEP_WORK=1 keeps it), and so are the directories
    that runs of the same check left behind when they were killed.  Replay files live in work/replay and survive."""
    import atexit
    os.makedirs(WORKROOT, exist_ok=True)
    for old in os.listdir(WORKROOT):
        if old.startswith(name + "-") and old[len(name) + 1:].isdigit():
            pid = int(old[len(name) + 1:])
            if pid != os.getpid() and not os.path.exists("/proc/%d" % pid):
                shutil.rmtree(os.path.join(WORKROOT, old), ignore_errors=True)
    d = os.path.join(WORKROOT, "%s-%d" % (name, os.getpid()))
    if os.path.exists(d):
        shutil.rmtree(d)
    os.makedirs(d)
    if not os.environ.get("VERIF_KEEP_WORK"):
        atexit.register(lambda: shutil.rmtree(d, ignore_errors=True))
    return d


def write_ndjson(path, items):
    with open(path, "w") as f:
        for it in items:
            f.write(json.dumps(it, ensure_ascii=False, separators=(",", ":")))
            f.write("\n")


def read_ndjson(path):
    out = []
    with open(path) as f:
        for line in f:
            line = line.strip()
            if line:
                out.append(json.loads(line))
    return out


def run_harness(items, wd, name, timeout_ms=10000, jobs=None):
    """Executes items (dicts with id, kind, ...) on the real code; returns observation records."""
    inp = os.path.join(wd, name + ".items.ndjson")
    out = os.path.join(wd, name + ".obs.ndjson")
    write_ndjson(inp, items)
    p = subprocess.run([BIN, "run", "--in", inp, "--out", out, "--jobs", str(jobs or JOBS),
                        "--timeout-ms", str(timeout_ms)], stdout=subprocess.PIPE, stderr=subprocess.PIPE, text=True)
    if p.returncode != 0:
        raise ToolError("harness run failed: " + p.stderr[-2000:])
    recs = read_ndjson(out)
    if len(recs) != len(items):
        raise ToolError("harness returned %d records for %d items" % (len(recs), len(items)))
    for r in recs:
        if r.get("outcome") == "ToolError":
            raise ToolError("harness tool error: %s" % r.get("msg"))
    return recs, out


def run_one(item):
    p = subprocess.run([BIN, "one"], input=json.dumps(item) + "\n", stdout=subprocess.PIPE,
                       stderr=subprocess.PIPE, text=True)
    if p.returncode != 0:
        # crash of the code under test in-process: report as a record
        return {"id": item.get("id"), "outcome": "Crash", "status": "exit %d" % p.returncode}
    return json.loads(p.stdout)


# ---------------------------------------------------------------------------------------------
# TLC

_TLC_NOISE = re.compile(r"^(Parsing file|Semantic processing|Linting of|Picked up|Starting\.\.\.|Implied-temporal|"
                        r"Computing initial|Computed \d|Checking temporal|Finished checking temporal|Progress\(|"
                        r"Warning: Please run|\(Use the -nowarning|Mode: |TLC2 Version|  Estimates of|  because two|"
                        r"  calculated|  based on the actual|Model checking completed|Finished computing|"
                        r"The average outdegree|Checkpointing|End of statistics|The depth of|Coverage|CommunityModules)")


class TlcResult:
    def __init__(self):
        self.out = ""
        self.records = []   # parsed "@@{json}" lines
        self.generated = 0
        self.distinct = 0
        self.depth = 0
        self.ok = False
        self.error = None
        self.wall = 0.0
        self.coverage = {}  # action name -> count (when -coverage)


def run_tlc(spec, cfg, wd, env=None, workers=1, simulate=None, depth=None, seed=None, timeout=900,
            dfs=False, coverage=False, heap=None, extra=None, deadlock=None, keep_one_in=1):
    """Runs TLC on spec/<spec>.tla with <cfg> (a path or a cfg text).  Returns TlcResult."""
    os.makedirs(wd, exist_ok=True)
    if simulate:
        workers = 1          # -simulate with several workers is not reproducible from the seed
    if "\n" in cfg or not os.path.exists(cfg):
        cfgpath = os.path.join(wd, os.path.basename(spec).replace(".tla", "") + ".gen.cfg")
        with open(cfgpath, "w") as f:
            f.write(cfg)
    else:
        cfgpath = cfg
    specpath = spec if os.path.isabs(spec) else os.path.join(SPEC, spec)
    meta = os.path.join(wd, "tlc-%s-%d" % (os.path.basename(spec).replace(".tla", ""), int(time.time() * 1000) % 10 ** 9))
    cmd = ["java", "-XX:+UseParallelGC"]
    if heap:
        cmd.append("-Xmx" + heap)
    cmd += ["-Xss1g", "-DTLA-Library=" + SPEC, "-Djava.io.tmpdir=" + wd]      # (TLC unpacks its standard modules there: gone with the work directory)
    if dfs:
        cmd.append("-Dtlc2.tool.queue.IStateQueue=StateDeque")
    cmd += ["-cp", "/opt/veriftools/tla/tla2tools.jar:/opt/veriftools/tla/CommunityModules-deps.jar", "tlc2.TLC",
            "-workers", str(workers), "-config", cfgpath, "-metadir", meta, "-cleanup", "-noGenerateSpecTE"]
    if simulate:
        cmd += ["-simulate", "num=%d" % simulate]
    if depth:
        cmd += ["-depth", str(depth)]
    if seed is not None:
        cmd += ["-seed", str(seed)]
    if coverage:
        cmd += ["-coverage", "1"]
    if deadlock is True:
        pass
    if extra:
        cmd += extra
    cmd.append(specpath)
    e = dict(os.environ)
    e.pop("JAVA_TOOL_OPTIONS", None)
    if env:
        e.update({k: str(v) for k, v in env.items()})
    r = TlcResult()
    t0 = time.time()
    try:
        p = subprocess.run(cmd, cwd=SPEC, env=e, stdout=subprocess.PIPE, stderr=subprocess.STDOUT, text=True,
                           timeout=timeout)
    except subprocess.TimeoutExpired as ex:
        r.out = (ex.stdout or b"").decode() if isinstance(ex.stdout, bytes) else (ex.stdout or "")
        r.error = "timeout"
        r.wall = time.time() - t0
        shutil.rmtree(meta, ignore_errors=True)
        return r
    r.wall = time.time() - t0
    r.out = p.stdout
    shutil.rmtree(meta, ignore_errors=True)
    kept = []
    r.emitted = 0
    import zlib
    for line in p.stdout.splitlines():
        if line.startswith('"@@'):
            r.emitted += 1
            if keep_one_in > 1 and zlib.crc32(line.encode()) % keep_one_in:
                continue        # deterministic thinning of very large enumerations (the count stays in r.emitted)
            try:
                r.records.append(json.loads(json.loads(line)[2:]))
            except Exception as ex:  # noqa
                raise ToolError("cannot parse TLC record line: %r (%s)" % (line[:200], ex))
            continue
        m = re.match(r"^(\d+) states generated, (\d+) distinct states found", line)
        if m:
            r.generated, r.distinct = int(m.group(1)), int(m.group(2))
        m = re.match(r"^The depth of the complete state graph search is (\d+)", line)
        if m:
            r.depth = int(m.group(1))
        m = re.match(r"^<(\w+) line \d+, col \d+ to line \d+, col \d+ of module \w+>: (\d+):(\d+)", line)
        if m:
            r.coverage[m.group(1)] = r.coverage.get(m.group(1), 0) + int(m.group(3))
        if line.startswith("Error:") and r.error is None:
            r.error = line
        if not _TLC_NOISE.match(line):
            kept.append(line)
    r.kept = kept
    r.ok = (p.returncode == 0 and r.error is None)
    if p.returncode != 0 and r.error is None:
        r.error = "tlc exit %d" % p.returncode
    return r


def tlc_must(r, what):
    if not r.ok:
        sys.stderr.write("\n".join(getattr(r, "kept", [])[-40:]) + "\n")
        raise ToolError("TLC failed on %s: %s" % (what, r.error))
    return r


def sany(specs):
    for s in specs:
        p = subprocess.run(["tla-sany", s], cwd=SPEC, stdout=subprocess.PIPE, stderr=subprocess.STDOUT, text=True)
        if p.returncode != 0 or "rror" in p.stdout.replace("errors", ""):
            sys.stderr.write(p.stdout[-3000:])
            raise ToolError("SANY rejects " + s)


# ---------------------------------------------------------------------------------------------
# known findings, violations, evidence


def load_known():
    p = os.path.join(VERIF, "known_findings.json")
    if not os.path.exists(p):
        return []
    return json.load(open(p))["findings"]


def short_hash(obj):
    return hashlib.sha1(json.dumps(obj, sort_keys=True).encode()).hexdigest()[:12]


class Verdict:
    """Collects violations of one property run; matches them against open known findings."""

    def __init__(self, prop, tier, seed):
        self.prop, self.tier, self.seed = prop, tier, seed
        self.known = [k for k in load_known() if k["property"] == prop and k.get("status", "open") == "open"]
        self.known_hits = {}      # finding id -> count
        self.violations = []      # (fingerprint, replay path)
        self.fp_seen = {}
        self.t0 = time.time()

    def report(self, fingerprint, detail, replay_item):
        """fingerprint: short abstract string; detail: dict; replay_item: what ./check --replay needs."""
        if "outcome=Skipped" in fingerprint:
            self.skipped = getattr(self, "skipped", 0) + 1      # circuit breaker of the worker pool: not evaluated
            return "skipped"
        for k in self.known:
            if re.search(k["fingerprint"], fingerprint):
                self.known_hits[k["id"]] = self.known_hits.get(k["id"], 0) + 1
                return "known"
        n = self.fp_seen.get(fingerprint, 0)
        self.fp_seen[fingerprint] = n + 1
        if n >= 3:       # keep at most 3 replay files per fingerprint
            return "dup"
        os.makedirs(REPLAY, exist_ok=True)
        path = os.path.join(REPLAY, "%s-%s.json" % (self.prop, short_hash([fingerprint, replay_item])))
        with open(path, "w") as f:
            json.dump({"property": self.prop, "fingerprint": fingerprint, "detail": detail, "tier": self.tier,
                       "seed": self.seed, "replay": replay_item}, f, indent=1, ensure_ascii=False)
        self.violations.append((fingerprint, path))
        return "new"

    def finish(self, level, coverage, assumptions=None):
        for k in self.known:
            if self.known_hits.get(k["id"]):
                print("KNOWN-FINDING: property=%s %s (%s; %d occurrence(s) this run)" % (
                    self.prop, k["what"], k["id"], self.known_hits[k["id"]]))
            else:
                # the finding is listed but was not reproduced by this run: say so, it is not an alarm
                log("note: known finding %s not reproduced in this run" % k["id"])
        for fp, path in self.violations:
            print("VIOLATION property=%s replay=%s" % (self.prop, path))
            log("  fingerprint: " + fp)
        ev = {
            "property_id": self.prop, "tier": self.tier, "seed": self.seed, "level": level,
            "coverage": coverage, "assumptions": assumptions or [],
            "wall_s": round(time.time() - self.t0, 2),
            "violations": sum(self.fp_seen.values()),
            "known_findings_hit": self.known_hits,
        }
        if getattr(self, "skipped", 0):
            ev["items_skipped_after_repeated_hangs_or_crashes"] = self.skipped
            log("note: %d items were skipped by the circuit breaker after repeated hangs/crashes" % self.skipped)
        os.makedirs(EVIDENCE, exist_ok=True)
        with open(os.path.join(EVIDENCE, self.prop + ".json"), "w") as f:
            json.dump(ev, f, indent=1, ensure_ascii=False)
        sys.stdout.flush()
        return 1 if self.violations else 0


def clip(s, n=160):
    s = str(s)
    return s if len(s) <= n else s[:n] + "..."
