"""C04 grammar conformance, both directions, driven by spec/Grammar.tla.

forward  (A): TLC (GrammarGen.tla) enumerates every strict-reading sentence up to a bound and follows seeded
              choice tapes for long ones; each sentence is rendered, parsed by the real parser; expected: zero
              errors and the typed accessors reach exactly the derivation's constituents in source order.
converse (B): token-level mutants of those sentences are decided by TLC (GrammarRec.tla, trace validation);
              a sequence no reading derives must yield >= 1 syntax error, one the strict reading derives none.
Also the source of generated programs for C01/C02/C03/C06/C17."""
import json
import os
import random

import common
import gen
from common import log, Verdict, ToolError

KW = {"include": "IncludeKw", "class": "ClassKw", "def": "DefKw", "let": "LetKw", "in": "In", "multiclass": "MultiClassKw",
      "defm": "DefmKw", "defset": "DefsetKw", "defvar": "DefvarKw", "dump": "Dump", "foreach": "ForeachKw", "if": "IfKw",
      "then": "Then", "else": "ElseKw", "assert": "AssertKw", "bit": "Bit", "int": "Int", "string": "StringKw", "dag": "DagKw",
      "bits": "BitsKw", "list": "ListKw", "code": "CodeKw", "field": "Field", "true": "TrueVal", "false": "FalseVal",
      "<": "Less", ">": "Greater", "{": "LBrace", "}": "RBrace", "[": "LSquare", "]": "RSquare", "(": "LParen", ")": "RParen",
      ",": "Comma", ";": "Semi", ":": "Colon", "=": "Equal", "?": "Question", ".": "Dot", "#": "Paste", "...": "DotDotDot",
      "-": "Minus", "!cond": "XCond"}
BANGS = [("add", "XAdd"), ("and", "XAnd"), ("cast", "XCast"), ("con", "XCon"), ("dag", "XDag"), ("div", "XDiv"), ("empty", "XEmpty"),
         ("eq", "XEq"), ("exists", "XExists"), ("filter", "XFilter"), ("find", "XFind"), ("foldl", "XFoldl"), ("foreach", "XForEach"),
         ("ge", "XGe"), ("getdagarg", "XGetDagArg"), ("getdagname", "XGetDagName"), ("getdagop", "XGetDagOp"), ("gt", "XGt"),
         ("head", "XHead"), ("if", "XIf"), ("initialized", "XInitialized"), ("interleave", "XInterleave"), ("isa", "XIsA"),
         ("le", "XLe"), ("listconcat", "XListConcat"), ("listflatten", "XListFlatten"), ("listremove", "XListRemove"),
         ("listsplat", "XListSplat"), ("lt", "XLt"), ("mul", "XMul"), ("ne", "XNe"), ("not", "XNot"), ("or", "XOr"),
         ("range", "XRange"), ("repr", "XRepr"), ("setdagarg", "XSetDagArg"), ("setdagname", "XSetDagName"), ("setdagop", "XSetDagOp"),
         ("shl", "XShl"), ("size", "XSize"), ("sra", "XSra"), ("srl", "XSrl"), ("strconcat", "XStrConcat"), ("sub", "XSub"),
         ("subst", "XSubst"), ("substr", "XSubstr"), ("tail", "XTail"), ("tolower", "XToLower"), ("toupper", "XToUpper"), ("xor", "XXor")]
IDS = ["A", "B", "Foo", "x", "y1", "Bar_2", "_z", "Inst", "v", "opcode", "NAME", "classy", "defx", "int1", "i"]
INTS = ["0", "1", "42", "7", "0x1F", "255"]
STRS = ['"s"', '"a b"', '"q\\"e"', '""', '"x\\\\n"', '"é"']
CODES = ["[{ c }]", "[{}]", "[{ a; } b ]}]"]
SEPS_PLAIN = [" "]
SEPS_RICH = [" ", "\n", "  ", "\t", " /* c */ ", " // c\n", "\r\n", "\n\n", " /* é * / */ ", "\n#ifdef UNDEFINED_M\n ! \" garbage }]\n#endif\n",
             "\n#define DEF_M\n", "\n#ifndef UNDEFINED_M\n", "\n#endif\n"]

CONSTITUENTS = None


def constituents():
    """the node kinds Grammar.tla marks (range of NodeKind) -- read from the spec text, single source of truth"""
    global CONSTITUENTS
    if CONSTITUENTS is None:
        import re
        s = open(os.path.join(common.SPEC, "Grammar.tla")).read()
        a = s.index("NodeKind == [")
        b = s.index("]", a)
        CONSTITUENTS = set(re.findall(r'\|->\s*"(\w+)"', s[a:b]))
    return CONSTITUENTS


def render(out, rng, rich, bang_counter):
    """out: sentence with node markers.  returns text, terminals, expected kinds, expected nodes (pre-order)"""
    parts, terms, kinds, nodes, st = [], [], [], [], []
    opened_ifndef = 0
    for sym in out:
        if sym.startswith("$("):
            st.append((sym[2:], len(terms), len(nodes)))
            nodes.append(None)
            continue
        if sym == "$)":
            k, first, slot = st.pop()
            nodes[slot] = [k, first, len(terms) - 1] if first <= len(terms) - 1 else None
            continue
        if sym == "ID":
            lex, kind = rng.choice(IDS), "Id"
        elif sym == "INT":
            lex, kind = rng.choice(INTS), "IntVal"
        elif sym == "BININT":
            lex, kind = "0b101", "BinaryIntVal"
        elif sym == "STR":
            lex, kind = rng.choice(STRS), "StrVal"
        elif sym == "CODE":
            lex, kind = rng.choice(CODES), "CodeFragment"
        elif sym == "VARNAME":
            lex, kind = "$" + rng.choice(IDS), "VarNameKw"
        elif sym == "BANG":
            op, kind = BANGS[bang_counter[0] % len(BANGS)]
            bang_counter[0] += 1
            lex = "!" + op
        else:
            lex, kind = sym, KW[sym]
        if terms:
            sep = rng.choice(SEPS_RICH) if rich and rng.random() < 0.45 else " "
            if "#ifndef" in sep:
                opened_ifndef += 1
            if sep == "\n#endif\n":
                if opened_ifndef == 0:
                    sep = "\n"
                else:
                    opened_ifndef -= 1
            parts.append(sep)
        parts.append(lex)
        terms.append(sym)
        kinds.append(kind)
    text = "".join(parts) + ("\n#endif\n" * opened_ifndef) + ("\n" if rich and rng.random() < 0.5 else "")
    return text, terms, kinds, [x for x in nodes if x is not None]


def tlc_generate(tier, seed, wd, light=False):
    """returns list of `out` sequences (strict-reading sentences with derivation markers)"""
    quick = tier == "quick"
    exh = 6 if quick else 8
    cfg = ('SPECIFICATION Spec\nCONSTANTS\n  Reading = "strict"\n  MaxTokens = %d\n  Start = "%s"\n  Collapse = {}\n'
           'INVARIANT EmitSentence\nINVARIANT WithinBudget\nCHECK_DEADLOCK FALSE\n')
    r1 = common.run_tlc("GrammarGen.tla", cfg % (exh, "SourceFile"), os.path.join(wd, "gen-exh"), workers=8, timeout=1800,
                        coverage=False, env={"TAPES": "", "SEEDS": ""})
    common.tlc_must(r1, "GrammarGen exhaustive")
    exh_out = sorted(x["out"] for x in r1.records)          # TLC's workers emit in scheduling order
    rng = random.Random("%d/tapes" % seed)
    ntapes = 1500 if quick else 12000
    tapes = [{"tape": [rng.randrange(100000) for _ in range(211)], "max": rng.choice([6, 9, 12, 16, 22, 30, 40, 55, 70, 90])}
             for _ in range(ntapes)]
    tp = os.path.join(wd, "tapes.json")
    json.dump(tapes, open(tp, "w"))
    r2 = common.run_tlc("GrammarGen.tla", cfg % (1, "Program"), os.path.join(wd, "gen-tape"), workers=8, timeout=3600,
                        env={"TAPES": tp, "SEEDS": ""})
    common.tlc_must(r2, "GrammarGen tapes")
    recs = sorted(r2.records, key=lambda x: x["tp"])
    tape_out = [x["out"] for x in recs]
    if len(tape_out) != ntapes:
        raise ToolError("GrammarGen: %d tapes gave %d sentences" % (ntapes, len(tape_out)))
    if light:
        stats = {"exhaustive_bound": exh, "exhaustive_sentences": len(exh_out), "tape_sentences": len(tape_out),
                 "states": r1.distinct + r2.distinct, "transitions": r1.generated + r2.generated}
        return exh_out, tape_out, stats
    # context coverage: VIEW-collapsed BFS visits every distinct (pending stack, previous terminal) once; each such
    # context is then completed minimally (Collapse = "*") into a sentence
    cb = 11 if quick else 12
    cfg3 = ('SPECIFICATION Spec\nCONSTANTS\n  Reading = "strict"\n  MaxTokens = %d\n  Start = "SourceFile"\n  Collapse = {}\n'
            'VIEW StackView\nINVARIANT EmitContext\nCHECK_DEADLOCK FALSE\n' % cb)
    # one worker: with several, which behaviour represents a view class depends on scheduling
    r3 = common.run_tlc("GrammarGen.tla", cfg3, os.path.join(wd, "gen-ctx"), workers=1, timeout=1800, env={"TAPES": "", "SEEDS": ""})
    common.tlc_must(r3, "GrammarGen contexts")
    sp = os.path.join(wd, "seeds.json")
    json.dump(sorted(r3.records, key=lambda x: json.dumps(x, sort_keys=True)), open(sp, "w"))
    cfg4 = ('SPECIFICATION Spec\nCONSTANTS\n  Reading = "strict"\n  MaxTokens = 100000\n  Start = "SourceFile"\n  Collapse = {"*"}\n'
            'INVARIANT EmitSentence\nCHECK_DEADLOCK FALSE\n')
    r4 = common.run_tlc("GrammarGen.tla", cfg4, os.path.join(wd, "gen-comp"), workers=8, timeout=1800, env={"TAPES": "", "SEEDS": sp})
    common.tlc_must(r4, "GrammarGen completion")
    seen, ctx_out = set(), []
    for x in r4.records:
        key = tuple(x["out"])
        if key not in seen:
            seen.add(key)
            ctx_out.append(x["out"])
    ctx_out.sort()
    stats = {"exhaustive_bound": exh, "exhaustive_sentences": len(exh_out), "tape_sentences": len(tape_out),
             "context_bound": cb, "contexts": len(r3.records), "context_sentences": len(ctx_out),
             "states": r1.distinct + r2.distinct + r3.distinct + r4.distinct,
             "transitions": r1.generated + r2.generated + r3.generated + r4.generated}
    return exh_out, tape_out + ctx_out, stats


_CACHE = {}


def generated_programs(tier, seed, limit=None):
    """rendered sentences for the other text/analysis checks (cached per process)"""
    key = (tier, seed)
    if key not in _CACHE:
        wd = common.workdir("gram-%s" % tier)
        exh, tape, _ = tlc_generate("quick", seed, wd, light=True)   # the program source for other checks is the quick set
        rng = random.Random("%d/render" % seed)
        bc = [0]
        progs = []
        for o in exh[::max(1, len(exh) // 150)] + tape[:(250 if tier == "quick" else 700)] + tape[1500::97]:
            progs.append(render(o, rng, rng.random() < 0.5, bc)[0])
        _CACHE[key] = progs
    return _CACHE[key][:limit] if limit else _CACHE[key]


def mutate_terms(rng, terms, alphabet):
    t = list(terms)
    op = rng.randrange(6)
    i = rng.randrange(len(t)) if t else 0
    if op == 5:
        # both brackets of a matched pair deleted (a required "{ ... }", "< ... >", "( ... )", "[ ... ]" made optional)
        close = {"{": "}", "<": ">", "(": ")", "[": "]"}
        stack, pairs = [], []
        for k, x in enumerate(t):
            if x in close:
                stack.append(k)
            elif x in close.values() and stack and close[t[stack[-1]]] == x:
                pairs.append((stack.pop(), k))
        if pairs:
            a, b = pairs[rng.randrange(len(pairs))]
            del t[b]
            del t[a]
            return t, "unbracket"
        op = rng.randrange(5)
    if op == 0 and t:
        del t[i]
        return t, "delete"
    if op == 1:
        t.insert(i, rng.choice(alphabet))
        return t, "insert"
    if op == 2 and t:
        t.insert(i, t[i])
        return t, "dup"
    if op == 3 and len(t) > 1:
        j = min(i + 1, len(t) - 1)
        t[i], t[j] = t[j], t[i]
        return t, "swap"
    if t:
        t[i] = rng.choice(alphabet)
        return t, "replace"
    return t, "none"


def render_terms(terms, rng, bc):
    # same lexemes as render(), always a single blank between tokens (mutants carry no decoration)
    fake = []
    for s in terms:
        fake.append(s)
    text, _t, kinds, _n = render(fake, rng, False, bc)
    return text, kinds


def recognise(traces, reading, wd, tag):
    """TLC decides every trace; returns (accepted set of indices, furthest position per trace)"""
    acc, far = set(), {}
    B = 400
    for b in range(0, len(traces), B):
        chunk = traces[b:b + B]
        p = os.path.join(wd, "traces-%s-%d.json" % (tag, b))
        json.dump(chunk, open(p, "w"))
        cfg = 'SPECIFICATION Spec\nCONSTANTS\n  Reading = "%s"\nINVARIANT PrintAccepted\nPOSTCONDITION PrintFurthest\nCHECK_DEADLOCK FALSE\n' % reading
        r = common.run_tlc("GrammarRec.tla", cfg, os.path.join(wd, "rec-%s-%d" % (tag, b)), workers=1, timeout=1800,
                           env={"TRACES": p}, heap="8g")
        common.tlc_must(r, "GrammarRec")
        for x in r.records:
            if "acc" in x:
                acc.add(b + x["acc"] - 1)
            if "far" in x:
                for i, f in enumerate(x["far"]):
                    far[b + i] = f
        recognise.states += r.distinct
    return acc, far


recognise.states = 0


def check_c04(tier, seed):
    v = Verdict("C04", tier, seed)
    wd = common.workdir("C04-%s" % tier)
    quick = tier == "quick"
    cons = constituents()
    exh, tape, stats = tlc_generate(tier, seed, wd)
    rng = random.Random("%d/c04" % seed)
    bc = [0]
    sentences = []
    for o in exh + tape:
        rich = rng.random() < 0.4
        text, terms, kinds, nodes = render(o, rng, rich, bc)
        sentences.append({"text": text, "terms": terms, "kinds": kinds, "nodes": nodes, "rich": rich})
    # ---------------- forward
    items = [{"id": i, "kind": "tree", "text": s["text"]} for i, s in enumerate(sentences)]
    recs, _ = common.run_harness(items, wd, "fwd", timeout_ms=20000)
    fwd_bad = 0
    for s, r in zip(sentences, recs):
        rid = r["id"]
        replay = {"kind": "tree", "id": rid, "text": s["text"], "terms": s["terms"], "dir": "fwd"}
        if r.get("outcome") != "Ok":
            continue        # C02's business (the same inputs feed C02)
        if r["kinds"] != s["kinds"]:
            # the real lexer split the rendered text differently: lexical trouble, not grammar (C14)
            k = next((i for i, (a, b) in enumerate(zip(r["kinds"], s["kinds"])) if a != b), min(len(r["kinds"]), len(s["kinds"])))
            v.report("C04 fwd lexed-differently intended=%s got=%s" % (s["kinds"][k] if k < len(s["kinds"]) else "-",
                                                                        r["kinds"][k] if k < len(r["kinds"]) else "-"),
                     {"text": s["text"]}, replay)
            fwd_bad += 1
            continue
        if r["nerr"] > 0:
            e = r["errs"][0]
            b = s["text"].encode()
            # which terminal does the first error sit on?
            pos = len(b[:e[0]].decode("utf-8", "ignore").split()) if False else None
            v.report("C04 fwd valid-sentence-flagged msg=%s" % common.clip(e[2], 70), {"errs": r["errs"][:3], "text": s["text"]}, replay)
            fwd_bad += 1
            continue
        got = [n for n in r["nodes"] if n[0] in cons]
        if got != s["nodes"]:
            k = next((i for i, (a, b) in enumerate(zip(got, s["nodes"])) if a != b), min(len(got), len(s["nodes"])))
            ex = s["nodes"][k] if k < len(s["nodes"]) else ["-"]
            gt = got[k] if k < len(got) else ["-"]
            prev = s["nodes"][k - 1][0] if k > 0 else "-"
            v.report("C04 fwd constituents-differ expected=%s got=%s after=%s" % (ex[0], gt[0], prev),
                     {"expected": s["nodes"][max(0, k - 2):k + 3], "got": got[max(0, k - 2):k + 3], "text": s["text"]}, replay)
            fwd_bad += 1
    # corpus must parse with zero errors
    corpus = gen.corpus_files()
    citems = [{"id": i, "kind": "tree", "text": t, "nodes": False} for i, (_n, t) in enumerate(corpus)]
    crecs, _ = common.run_harness(citems, wd, "corpus", timeout_ms=60000)
    for (name, t), r in zip(corpus, crecs):
        if r.get("outcome") == "Ok" and r["nerr"] > 0:
            v.report("C04 corpus-file-flagged msg=%s" % common.clip(r["errs"][0][2], 70), {"file": name, "errs": r["errs"][:3]},
                     {"kind": "tree", "id": 0, "text": t, "dir": "corpus", "file": name})
    # ---------------- converse
    alphabet = sorted(set(KW) | {"ID", "INT", "BININT", "STR", "CODE", "VARNAME", "BANG"})
    base = [s for s in sentences if 2 <= len(s["terms"]) <= 45]
    rng.shuffle(base)
    nm = 2500 if quick else 40000
    muts = []
    seen = set()
    for k in range(nm * 3):
        if len(muts) >= nm:
            break
        s = base[k % len(base)]
        t, op = mutate_terms(rng, s["terms"], alphabet)
        if rng.random() < (0.15 if quick else 0.3):
            t, op2 = mutate_terms(rng, t, alphabet)
            op = op + "+" + op2
        key = tuple(t)
        if key in seen or not t:
            continue
        seen.add(key)
        muts.append({"terms": t, "op": op})
    # systematic: for every constituent kind and every terminal the constituent owns directly (not through a child constituent):
    # that terminal deleted, and every bracket pair it owns deleted - "a required token made optional" for every rule of the
    # grammar, on the shortest sentence that has such a constituent
    close = {"{": "}", "<": ">", "(": ")", "[": "]"}
    best = {}
    for sn in sentences:
        t = sn["terms"]
        if not (2 <= len(t) <= 60):
            continue
        nodes = sn["nodes"]
        for ni, (k, first, last) in enumerate(nodes):
            owned = set(range(first, last + 1))
            for (k2, f2, l2) in nodes[ni + 1:]:
                if f2 > last:
                    break
                if f2 >= first and l2 <= last and (f2, l2) != (first, last):
                    owned -= set(range(f2, l2 + 1))
            # a whole child constituent deleted (a required sub-constituent, the one mandatory repetition of a "+" list)
            children = []
            for (k2, f2, l2) in nodes[ni + 1:]:
                if f2 > last:
                    break
                if f2 >= first and l2 <= last and (f2, l2) != (first, last) and not any(cf <= f2 and l2 <= cl for (_ck, cf, cl) in children):
                    children.append((k2, f2, l2))
            nsame = {}
            for (k2, f2, l2) in children:
                nsame[k2] = nsame.get(k2, 0) + 1
            for (k2, f2, l2) in children:
                key = (k, "dropchild", k2, "only" if nsame[k2] == 1 else "one-of-several")
                if key not in best or len(best[key]) > len(t) - (l2 - f2 + 1):
                    best[key] = t[:f2] + t[l2 + 1:]
            owned = sorted(owned)
            for r, idx in enumerate(owned):
                key = (k, "drop", r, t[idx])
                if key not in best or len(best[key]) > len(t) - 1:
                    best[key] = t[:idx] + t[idx + 1:]
                if t[idx] in close:
                    for idx2 in owned[r + 1:]:
                        if t[idx2] == close[t[idx]]:
                            key = (k, "unbracket", r, t[idx], t[idx + 1] if idx2 > idx + 1 else "")      # by the first token inside
                            if key not in best or len(best[key]) > len(t) - 2:
                                best[key] = t[:idx] + t[idx + 1:idx2] + t[idx2 + 1:]
                            break
    nsys = 0
    for key in sorted(best):
        tt = best[key]
        if tt and tuple(tt) not in seen:
            seen.add(tuple(tt))
            muts.append({"terms": tt, "op": "%s:%s" % (key[1], key[0])})
            nsys += 1
    traces = [m["terms"] for m in muts]
    lib_acc, far = recognise(traces, "liberal", wd, "lib")
    strict_acc, _ = recognise(traces, "strict", wd, "strict")
    bc2 = [0]
    mitems = []
    for i, m in enumerate(muts):
        text, kinds = render_terms(m["terms"], rng, bc2)
        m["text"], m["kinds"] = text, kinds
        mitems.append({"id": i, "kind": "tree", "text": text, "nodes": False})
    mrecs, _ = common.run_harness(mitems, wd, "conv", timeout_ms=20000)
    n_rej = n_acc = 0
    for i, (m, r) in enumerate(zip(muts, mrecs)):
        if r.get("outcome") != "Ok" or r["kinds"] != m["kinds"]:
            continue
        replay = {"kind": "tree", "id": i, "text": m["text"], "terms": m["terms"], "dir": "conv"}
        if i not in lib_acc:
            n_rej += 1
            if r["nerr"] == 0:
                f = far.get(i, 1)
                ctx = m["terms"][max(0, f - 4):f - 1]
                at = m["terms"][f - 1] if f - 1 < len(m["terms"]) else "<end>"
                v.report("C04 conv non-sentence-accepted-silently stuck-after=[%s] at=%s" % (" ".join(ctx), at),
                         {"terms": m["terms"], "text": m["text"], "furthest": f}, replay)
        elif i in strict_acc:
            n_acc += 1
            if r["nerr"] > 0:
                v.report("C04 conv valid-sentence-flagged msg=%s" % common.clip(r["errs"][0][2], 70),
                         {"terms": m["terms"], "text": m["text"], "errs": r["errs"][:3]}, replay)
    if not v.violations and (n_rej < 100 or n_acc < 5):
        raise ToolError("vacuous converse run: %d rejected, %d strict-accepted mutants" % (n_rej, n_acc))
    samples = [{"sentence": " ".join(sentences[i]["terms"]), "rendered": sentences[i]["text"][:160]} for i in (3, len(exh) // 2, len(exh) + 5)]
    samples.append({"mutant": " ".join(muts[0]["terms"]), "op": muts[0]["op"], "liberal_accepts": 0 in lib_acc})
    cov = {
        "states": stats["states"] + recognise.states, "transitions": stats["transitions"] + recognise.states,
        "traces_validated_against_impl": len(sentences) + len(muts),
        "samples": samples, "exhaustive": False,
        "forward": {"sentences": len(sentences), "exhaustive_up_to_terminals": stats["exhaustive_bound"],
                    "exhaustive_sentences": stats["exhaustive_sentences"], "tape_sentences": stats["tape_sentences"],
                    "contexts_(stack,previous_terminal)_within_bound": stats["contexts"], "context_bound": stats["context_bound"],
                    "context_sentences": stats["context_sentences"],
                    "decorated": sum(1 for s in sentences if s["rich"]), "mismatching": fwd_bad, "corpus_files": len(corpus)},
        "converse": {"mutants": len(muts), "systematic_required_token_mutants": nsys, "rejected_by_every_reading": n_rej, "accepted_by_strict_reading": n_acc,
                     "in_between_no_expectation": len(muts) - n_rej - n_acc},
        "explanation": "GrammarGen.tla enumerated by TLC exhaustively to the bound plus seeded choice tapes; GrammarRec.tla (TLC, trace "
                       "validation) decides every mutant under the liberal and the strict reading",
    }
    return v.finish("model_checking", cov, ["the strict/liberal readings of syntax.md + rule comments are as in DESIGN.md Appendix E",
                                             "renderer maps terminals to lexemes (cross-checked against the real lexer's kinds per item)"])


def replay(prop, path):
    d = json.load(open(path))
    item = d["replay"]
    rec = common.run_one({"kind": "tree", "id": 0, "text": item["text"], "nodes": item.get("dir") == "fwd"})
    print(json.dumps({"text": item["text"], "terms": item.get("terms"), "dir": item.get("dir"), "errs": rec.get("errs"),
                      "outcome": rec.get("outcome"), "fingerprint": d["fingerprint"]}, indent=1, ensure_ascii=False))
    bad = False
    if item.get("dir") == "conv":
        wd = common.workdir("replay-C04")
        lib, far = recognise([item["terms"]], "liberal", wd, "lib")
        st, _ = recognise([item["terms"]], "strict", wd, "strict")
        print("liberal accepts: %s, strict accepts: %s, furthest: %s" % (0 in lib, 0 in st, far.get(0)))
        bad = (0 not in lib and rec.get("nerr") == 0) or (0 in st and rec.get("nerr", 0) > 0)
    else:
        bad = rec.get("nerr", 0) > 0 or "constituents" in d["fingerprint"]
    if bad:
        print("VIOLATION property=%s replay=%s" % (prop, path))
        return 1
    return 0
