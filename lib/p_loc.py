"""C09 location fidelity: every range/location the real server sends (definition, references, documentSymbol, foldingRange,
documentLink, inlayHint, publishDiagnostics) is paired with the span the analysis computed for the same query on the same
state (ide level, byte offsets) and validated by TLC (LocTrace.tla): interpreted against the text of the document the server
names, it must denote exactly that span - mapped with the TARGET file's line table by the reference mapper (PosRef.tla)."""
import json
import os
import random

import common
from common import log, Verdict, ToolError

NOISE_LINES = ["// ascii comment", "// é accent", "// \U0001f680 rocket 𠮷", "", "/* block */", "// €uro", "/* \U0001d11e */"]
INLINE = ["", "", "/* é */ ", "/* \U0001f680 */ ", "\t", "/*€*/", "  "]


def cls_of(ch):
    if ch == "\n":
        return "LF"
    if ch == "\r":
        return "CR"
    if ch == " ":
        return "s"
    if ch == "\x0c":
        return "FF"
    if ch == " ":
        return "LS"
    n = len(ch.encode("utf-8"))
    return {1: "a", 2: "b2", 3: "b3", 4: "b4"}[n]


def lsp_pos(text, boff):
    """request positions only: (line, utf-16 column) of a byte offset"""
    b = text.encode("utf-8")[:boff].decode("utf-8")
    line = 0
    start = 0
    i = 0
    while i < len(b):
        if b[i] == "\n" or (b[i] == "\r" and not (i + 1 < len(b) and b[i + 1] == "\n")):
            line += 1
            start = i + 1
        i += 1
    return {"line": line, "character": len(b[start:].encode("utf-16-le")) // 2}


class Builder:
    def __init__(self, rng, eol, rich):
        self.rng, self.eol, self.rich = rng, eol, rich
        self.parts, self.sites = [], []

    def noise(self):
        if self.eol.strip(" ") == "" and self.eol:
            self.parts.append("/* wide */ ")          # no line comments on a one-line file
            return
        for _ in range(self.rng.randrange(0, 4)):
            self.parts.append(self.rng.choice(NOISE_LINES if self.rich else NOISE_LINES[:1] + [""]) + self.eol)

    def line(self, *pieces):
        """pieces: plain strings or ('id', name): identifier occurrences become probe sites"""
        for p in pieces:
            if isinstance(p, tuple):
                if self.rich and self.rng.random() < 0.5:
                    self.parts.append(self.rng.choice(INLINE))
                self.sites.append(len("".join(self.parts).encode("utf-8")))
                self.parts.append(p[1])
            else:
                self.parts.append(p)
        self.parts.append(self.eol)

    def text(self):
        return "".join(self.parts)


def workspace(rng, variant):
    # "wide": almost everything on one very long line (many concurrent requests convert columns of the same line)
    eol = {"ascii": "\n", "rich": "\n", "crlf": "\r\n", "rich-crlf": "\r\n", "cr": "\r", "wide": " " * 60}[variant]
    rich = variant.startswith("rich")
    I = lambda n: ("id", n)
    lib = Builder(rng, eol, rich)
    lib.noise()
    lib.line("class ", I("Base"), "<int ", I("w"), "> { int ", I("width"), " = ", I("w"), "; string ", I("tag"), ' = "é\U0001f680"; }')
    lib.noise()
    lib.line("def ", I("shared"), " : ", I("Base"), "<1>;")
    lib.line("def ", I("libuser"), " : ", I("Base"), "<2> { int q = ", I("LibUndefined"), "; }")
    lib.noise()
    lib.line("multiclass ", I("MC"), "<int ", I("k"), "> { def _a : ", I("Base"), "<", I("k"), ">; }")
    main = Builder(rng, eol, rich)
    main.line("/* head */")
    main.noise()
    main.line('include "lib.td"')
    main.noise()
    main.line("class ", I("Derived"), "<int ", I("a"), ", int ", I("b"), " = 2> : ", I("Base"), "<", I("a"), "> {")
    main.line("  let ", I("width"), " = ", I("b"), ";")
    main.line("  int ", I("extra"), " = ", I("width"), ";")
    main.line("}")
    main.noise()
    main.line("def ", I("user"), " : ", I("Derived"), "<1, 3> { int ", I("z"), " = ", I("shared"), ".", I("width"), "; }")
    main.line("foreach ", I("i"), " = [1, 2] in {")
    main.line("  def ", I("f"), "#", I("i"), " : ", I("Base"), "<", I("i"), ">;")
    main.line("}")
    main.line("defm ", I("inst"), " : ", I("MC"), "<4>;")
    main.line("def ", I("bad"), " : ", I("Undefined"), ";")
    main.line("if 1 then { def ", I("cond"), " : ", I("Base"), "<0>; }")
    return {"lib.td": (lib.text(), lib.sites), "main.td": (main.text(), main.sites)}


def make_items(i, ws, wd):
    d = os.path.join(wd, "fs", "run%d" % i)
    files = {n: t for n, (t, _s) in ws.items()}
    steps = [{"op": "open", "file": "main.td", "v": 1, "text": files["main.td"]}, {"op": "quiet"}]
    queries = []
    for n in ("main.td", "lib.td"):
        text, sites = ws[n]
        # (a file with one very long line: the same whole-file requests many times over, all in flight together)
        wide = "\n" not in text.strip() and "\r" not in text.strip()
        first_of = {}
        for m in ("documentSymbol", "foldingRange", "documentLink", "inlayHint") * (12 if wide else 1):
            params = {}
            if m == "inlayHint":
                params = {"range": {"start": {"line": 0, "character": 0}, "end": lsp_pos(text, len(text.encode("utf-8")))}}
            steps.append({"op": "request", "method": "textDocument/" + m, "file": n, "params": params})
            queries.append({"m": m, "path": os.path.join(d, n)})
            if m in first_of:
                queries[-1]["dup"] = first_of[m]        # a repetition: must answer exactly what the first one (validated) answered
            else:
                first_of[m] = len(queries) - 1
        for off in sites:
            for m in ("definition", "references"):
                params = {"position": lsp_pos(text, off)}
                if m == "references":
                    params["context"] = {"includeDeclaration": True}
                steps.append({"op": "request", "method": "textDocument/" + m, "file": n, "params": params})
                queries.append({"m": m, "path": os.path.join(d, n), "off": off})
    steps.append({"op": "quiet"})
    for n in ("main.td", "lib.td"):
        queries.append({"m": "diagnostics", "path": os.path.join(d, n)})
    # second phase: the same bytes at the same offsets, but the first line end becomes blanks (line structure changes)
    eol = "\r\n" if "\r\n" in files["main.td"] else ("\r" if "\r" in files["main.td"] else "\n")
    text2 = files["main.td"].replace(eol, " " * len(eol), 1)
    steps.append({"op": "change", "file": "main.td", "v": 2, "text": text2})
    steps.append({"op": "quiet"})
    srv = {"id": i, "kind": "session", "dir": d, "disk": files, "steps": steps, "quiet_ms": 30000}
    if i % 2 == 1:
        srv["client"] = "full"
    ide = {"id": i, "kind": "idequery", "files": {os.path.join(d, n): t for n, t in files.items()}, "root": os.path.join(d, "main.td"),
           "queries": queries}
    files2 = dict(files)
    files2["main.td"] = text2
    ide2 = {"id": i, "kind": "idequery", "files": {os.path.join(d, n): t for n, t in files2.items()}, "root": os.path.join(d, "main.td"),
            "queries": queries[-2:]}
    return srv, ide, queries, ide2, text2


def rng4(r):
    return [r["start"]["line"], r["start"]["character"], r["end"]["line"], r["end"]["character"]]


def pair(ws, queries, srec, irec, d):
    """-> (locs for LocTrace, structural problems)"""
    names = ["main.td", "lib.td"]
    fidx = {os.path.join(d, n): k + 1 for k, n in enumerate(names)}
    uidx = lambda uri: fidx.get(uri.replace("file://", ""), 0)
    locs, problems = [], []
    responses = [e for e in srec["events"] if e["ev"] == "Response"]
    responses.sort(key=lambda e: e["id"])
    pubs = {}
    for e in srec["events"]:
        if e["ev"] == "Change":
            break                       # first phase only
        if e["ev"] == "Publish":
            pubs[e["file"]] = e["diags"]
    nreq = len(queries) - 2
    if len(responses) != nreq:
        return [], ["responses=%d of %d" % (len(responses), nreq)]
    for q, resp, ans in zip(queries[:nreq], responses, irec["answers"][:nreq]):
        m = q["m"]
        res = resp["result"] if resp.get("ok") else "ERROR"
        if q.get("dup") is not None:
            if res != (responses[q["dup"]]["result"] if responses[q["dup"]].get("ok") else "ERROR"):
                problems.append("%s concurrent-identical-requests-answered-differently" % m)
            continue
        if res == "ERROR":
            problems.append("%s error-response" % m)
            continue
        if m == "definition":
            got = [] if res is None else [[res["uri"], rng4(res["range"])]]
        elif m == "references":
            got = [] if res is None else [[x["uri"], rng4(x["range"])] for x in res]
        elif m == "documentSymbol":
            got = []

            def fl(xs):
                for x in xs:
                    got.append(["file://" + q["path"], rng4(x["range"])])
                    fl(x.get("children") or [])
            fl(res or [])
        elif m == "foldingRange":
            got = [["file://" + q["path"], [x["startLine"], -1, x["endLine"], -1]] for x in (res or [])]
        elif m == "documentLink":
            got = [["file://" + q["path"], rng4(x["range"])] for x in (res or [])]
        elif m == "inlayHint":
            got = [["file://" + q["path"], [x["position"]["line"], x["position"]["character"]] * 2] for x in (res or [])]
        exp = ans or []
        if len(got) != len(exp):
            problems.append("%s count server=%d analysis=%d" % (m, len(got), len(exp)))
            continue
        for (uri, r4), e in zip(got, exp):
            locs.append({"m": m, "f": fidx.get(e[0], 0), "u": uidx(uri), "bs": e[1], "be": e[2], "l0": r4[0], "c0": r4[1], "l1": r4[2], "c1": r4[3]})
            if m == "documentLink":
                pass
        if m == "documentLink":
            for x, e in zip(res or [], exp):
                if x.get("target", "").replace("file://", "") != e[3]:
                    problems.append("documentLink target differs")
    for n, ans in zip(names, irec["answers"][nreq:]):
        got = pubs.get(n)
        exp = ans or []
        if got is None:
            if exp:
                problems.append("diagnostics never published for %s" % n)
            continue
        if len(got) != len(exp):
            problems.append("diagnostics count server=%d analysis=%d" % (len(got), len(exp)))
            continue
        for g, e in zip(got, exp):
            locs.append({"m": "diagnostics", "f": fidx.get(e[0], 0), "u": fidx[os.path.join(d, n)], "bs": e[1], "be": e[2],
                         "l0": g["range"]["start"]["line"], "c0": g["range"]["start"]["character"],
                         "l1": g["range"]["end"]["line"], "c1": g["range"]["end"]["character"]})
    return locs, problems


def pair_phase2(srec, irec2, d):
    names = ["main.td", "lib.td"]
    fidx = {os.path.join(d, n): k + 1 for k, n in enumerate(names)}
    pubs, after = {}, False
    for e in srec["events"]:
        if e["ev"] == "Change":
            after = True
        elif e["ev"] == "Publish" and after:
            pubs[e["file"]] = e["diags"]
    locs, problems = [], []
    for n, ans in zip(names, irec2["answers"]):
        got, exp = pubs.get(n), ans or []
        if got is None:
            if exp:
                problems.append("diagnostics not re-published after the edit for %s" % n)
            continue
        if len(got) != len(exp):
            problems.append("diagnostics count after edit server=%d analysis=%d" % (len(got), len(exp)))
            continue
        for g, e in zip(got, exp):
            locs.append({"m": "diagnostics-after-edit", "f": fidx.get(e[0], 0), "u": fidx[os.path.join(d, n)], "bs": e[1], "be": e[2],
                         "l0": g["range"]["start"]["line"], "c0": g["range"]["start"]["character"],
                         "l1": g["range"]["end"]["line"], "c1": g["range"]["end"]["character"]})
    return locs, problems


def check_c09(tier, seed):
    v = Verdict("C09", tier, seed)
    wd = common.workdir("C09-%s" % tier)
    quick = tier == "quick"
    rng = random.Random("%d/c09" % seed)
    variants = ["ascii", "rich", "crlf", "rich-crlf", "cr", "wide"]
    wss, srv_items, ide_items, qs, ide2_items, texts2 = [], [], [], [], [], []
    for i in range(40 if quick else 600):
        ws = workspace(rng, variants[i % len(variants)])
        s, d, q, d2, t2 = make_items(i, ws, wd)
        wss.append(ws)
        srv_items.append(s)
        ide_items.append(d)
        ide2_items.append(d2)
        texts2.append(t2)
        qs.append(q)
    log("C09 %s: %d workspaces, %d requests each" % (tier, len(wss), len(qs[0])))
    srecs, _ = common.run_harness(srv_items, wd, "srv", timeout_ms=120000, jobs=8)
    irecs, _ = common.run_harness(ide_items, wd, "ide", timeout_ms=60000)
    irecs2, _ = common.run_harness(ide2_items, wd, "ide2", timeout_ms=60000)
    records = []
    nloc = 0
    for i, (ws, srec, irec) in enumerate(zip(wss, srecs, irecs)):
        replay = {"files": {n: t for n, (t, _s) in ws.items()}, "variant": variants[i % len(variants)]}
        if srec.get("outcome") != "Ok" or irec.get("outcome") != "Ok":
            v.report("C09 outcome=%s/%s " % (srec.get("outcome"), irec.get("outcome")), {}, replay)
            continue
        locs, problems = pair(ws, qs[i], srec, irec, srv_items[i]["dir"])
        for p in sorted(set(problems)):
            v.report("C09 structure %s" % p, {"variant": replay["variant"]}, replay)
        nloc += len(locs)
        records.append({"id": i, "texts": [[cls_of(c) for c in ws[n][0]] for n in ("main.td", "lib.td")], "locs": locs})
        if irecs2[i].get("outcome") == "Ok":
            locs2, problems2 = pair_phase2(srec, irecs2[i], srv_items[i]["dir"])
            for p in sorted(set(problems2)):
                v.report("C09 structure %s" % p, {"variant": replay["variant"]}, replay)
            nloc += len(locs2)
            records.append({"id": 100000 + i, "texts": [[cls_of(c) for c in texts2[i]], [cls_of(c) for c in ws["lib.td"][0]]], "locs": locs2})
    path = os.path.join(wd, "loc.ndjson")
    common.write_ndjson(path, records)
    r = common.run_tlc("LocTrace.tla", os.path.join(common.SPEC, "LocTrace.cfg"), os.path.join(wd, "tlc"), env={"TRACE": path}, workers=1,
                       timeout=3600, heap="8g")
    common.tlc_must(r, "LocTrace")
    if r.distinct != len(records) + 1:
        raise ToolError("LocTrace consumed %d of %d" % (r.distinct - 1, len(records)))
    for x in r.records:
        i = x["id"] % 100000
        first = x["first"]
        why, loc = (list(first.values())[0] if isinstance(first, dict) else first[0])
        cross = "cross-file" if loc["m"] in ("definition", "references") else "same-file"
        v.report("C09 %s method=%s variant-has=%s" % (why, loc["m"], features(wss[i], loc)),
                 {"first": loc, "mismatching_locations": x["n"], "variant": variants[i % len(variants)]},
                 {"files": {n: t for n, (t, _s) in wss[i].items()}, "variant": variants[i % len(variants)]})
    if not v.violations and nloc < 500:
        raise ToolError("vacuous: %d locations" % nloc)
    methods = {}
    for rec in records:
        for l_ in rec["locs"]:
            methods[l_["m"]] = methods.get(l_["m"], 0) + 1
    cov = {"states": r.distinct, "transitions": r.generated, "traces_validated_against_impl": len(records),
           "samples": [{"variant": variants[0], "main.td": wss[0]["main.td"][0][:300]}, {"variant": variants[1], "lib.td": wss[1]["lib.td"][0][:300]}],
           "exhaustive": False, "workspaces": len(records), "locations_validated": nloc, "by_method": methods,
           "explanation": "two-file workspaces (definitions and references across the include in both directions, different line structure "
                          "per file, ASCII / non-ASCII incl. astral / CRLF / lone CR variants); every identifier site x definition+references, "
                          "per file documentSymbol, foldingRange, documentLink, inlayHint, plus published diagnostics; the real server's JSON "
                          "is paired with the ide-level spans and judged by TLC with the reference mapper on the target file's text"}
    return v.finish("model_checking", cov, ["request positions are computed by the orchestrator's own mapper (inputs only)",
                                             "server and ide-level results are paired by order"])


def features(ws, loc):
    t = ws["main.td" if loc["f"] == 1 else "lib.td"][0] if loc["f"] in (1, 2) else ""
    f = []
    if any(len(c.encode()) == 4 for c in t):
        f.append("astral")
    elif any(ord(c) > 127 for c in t):
        f.append("non-ascii")
    if "\r\n" in t:
        f.append("crlf")
    elif "\r" in t:
        f.append("cr")
    return "+".join(f) or "ascii"


def replay(prop, path):
    d = json.load(open(path))
    print(json.dumps(d["detail"], indent=1)[:2000])
    print(json.dumps(d["replay"], indent=1, ensure_ascii=False)[:3000])
    print("VIOLATION property=%s replay=%s" % (prop, path))
    return 1
