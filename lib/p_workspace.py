"""C16 (include graphs) and C07 (incremental consistency), driven by spec/Workspace.tla.
TLC enumerates every include graph / every edit history of the reference model up to the bounds and emits the expected
observation (workspace, links, not-found diagnostics, outline markers) after every action; the harness executes them
on one long-lived AnalysisHost over an in-memory file system and, for C07, also compares the full query set with a
freshly started host."""
import json
import re
import os
import random
import zlib

import common
from common import log, Verdict, ToolError

WS = "/ws"


def path_of(f):
    return "%s/%s/%s.td" % (WS, f[0], f[1])


def stem(f, k):
    return "%s_%s_%d" % (f[0], f[1], k)


def render(f, v):
    if v["k"] < 0:
        return None
    s = stem(f, v["k"])
    # optional syntax: an include statement may sit inside a block (same line, so that line i is include i)
    nest = ['%s', 'if true then { %s }', '%s', 'foreach i_ = [1] in { %s }', 'let q_ = 1 in { %s }', 'defset list<int> ds_@ = { %s }',
            'if false then { } else { %s }', 'let q_ = 1 in { if true then { defset list<int> ds_@ = { %s } } }', 'foreach i_ = [1] in let q_ = 1 in { %s }']
    lines = [nest[zlib.crc32(("%s/%s/%d/%d/%s" % (f[0], f[1], v["k"], i, n)).encode()) % len(nest)].replace("@", "%s_%d" % (s, i)) % ('include "%s.td"' % n)
             for i, n in enumerate(v["incs"])]
    lines.append("class M_%s;" % s)
    lines.append("def D_%s : M_%s;" % (s, s))
    if v["faulty"]:
        lines.append("def X_%s : U_%s;" % (s, s))
    return "\n".join(lines) + "\n"


def tlc_run(wn, inn, names, maxinc, steps, wd, tag, simulate=None, seed=None, keep_one_in=1):
    cfg = ('SPECIFICATION Spec\nCONSTANTS\n  WNames = {%s}\n  INames = {%s}\n  Name = {%s}\n  MaxInc = %d\n  MaxSteps = %d\n'
           'INVARIANT RootInWorkspace\nINVARIANT ReachClosed\nINVARIANT Emit\nCHECK_DEADLOCK FALSE\n'
           % (", ".join('"%s"' % x for x in wn), ", ".join('"%s"' % x for x in inn), ", ".join('"%s"' % x for x in names), maxinc, steps))
    r = common.run_tlc("Workspace.tla", cfg, os.path.join(wd, "ws-" + tag), workers=8, timeout=3600, simulate=simulate,
                       depth=(steps + 1) if simulate else None, seed=seed, keep_one_in=keep_one_in)
    common.tlc_must(r, "Workspace " + tag)
    return r


def line_of(text, off):
    return text.encode()[:off].count(b"\n")


def compare(exp, got, texts):
    """exp: Obs from TLC; got: harness observation; texts: path -> current text.  returns list of (fingerprint-part, detail)"""
    out = []
    if got.get("outcome") != "Ok":
        return [("outcome=%s" % got.get("outcome"), got)]
    exp_files = {path_of(x["file"]): x for x in exp["files"]}
    if sorted(exp_files) != sorted(got["ws"]):
        extra = sorted(set(got["ws"]) - set(exp_files))
        missing = sorted(set(exp_files) - set(got["ws"]))
        out.append(("workspace-differs %s" % ("extra-file" if extra else "missing-file"), {"expected": sorted(exp_files), "got": got["ws"]}))
        return out
    for g in got["files"]:
        e = exp_files[g["path"]]
        f = e["file"]
        s = stem(f, e["k"])
        want_outline = ["M_" + s, "D_" + s] + (["X_" + s] if e["faulty"] else [])
        g["outline"] = [n for n in g["outline"] if not n.startswith("ds_")]       # the defsets some include statements are nested in
        if g["outline"] != want_outline:
            kind = "indexed-more-than-once" if len(g["outline"]) > len(want_outline) and set(g["outline"]) == set(want_outline) else (
                "stale-version" if any(n.startswith("M_%s_%s_" % (f[0], f[1])) for n in g["outline"]) and g["outline"] != want_outline else "wrong")
            out.append(("outline-differs %s" % kind, {"file": g["path"], "expected": want_outline, "got": g["outline"]}))
        if g["path"] not in texts:
            raise ToolError("renderer lost track of %s: %s" % (g["path"], json.dumps(exp)[:800]))
        text = texts[g["path"]]
        want_links = [(i, path_of(t)) for i, t in enumerate(e["links"]) if t[0] != ""]
        got_links = [(line_of(text, l[0]), l[2]) for l in g["links"]]
        if got_links != want_links:
            out.append(("links-differ", {"file": g["path"], "expected": want_links, "got": got_links}))
        # (by what the message names, not by its wording: an include that is not found, an undefined class)
        def what(m):
            mm = re.search(r"\b(\w+)\.td\b", m)
            if mm:
                return "include-not-found:" + mm.group(1)
            mm = re.search(r"\b(U_\w+)", m)
            return "undefined-class:" + mm.group(1) if mm else "other:" + m
        want_d = sorted([(i, "include-not-found:%s" % e["incs"][i]) for i, t in enumerate(e["links"]) if t[0] == ""]
                        + ([(len(e["incs"]) + 2, "undefined-class:U_" + s)] if e["faulty"] else []))
        got_d = sorted((line_of(text, d[0]), what(d[2])) for d in g["diags"])
        if got_d != want_d:
            kind = "not-found" if any("include" in m for _l, m in set(want_d) ^ set(got_d)) else "other"
            out.append(("diagnostics-differ %s" % kind, {"file": g["path"], "expected": want_d, "got": got_d}))
    return out


def to_item(i, b):
    fs = {}
    for x in b["fs0"]:
        t = render(x["file"], x["v"])
        if t is not None:
            fs[path_of(x["file"])] = t
    root0 = path_of(b["obs0"]["root"])
    steps, texts_after = [], []
    cur = dict(fs)
    texts_after.append(dict(cur))
    for h in b["hist"]:
        a = h["act"]
        p = path_of(a["file"])
        if a["a"] == "Touch":
            t = render(a["file"], a["v"])
            cur[p] = t
            steps.append({"a": "Touch", "path": p, "text": t})
        elif a["a"] == "Reroot":
            steps.append({"a": "Reroot", "path": p})
        else:
            t = render(a["file"], a["v"])
            if t is None:
                cur.pop(p, None)
                steps.append({"a": "Disk", "path": p})
            else:
                cur[p] = t
                steps.append({"a": "Disk", "path": p, "text": t})
        texts_after.append(dict(cur))
    return {"id": i, "kind": "wshist", "files0": fs, "root0": root0, "include_dir": WS + "/inc", "steps": steps}, texts_after


def run(prop, tier, seed):
    v = Verdict(prop, tier, seed)
    wd = common.workdir("%s-%s" % (prop, tier))
    quick = tier == "quick"
    rng = random.Random("%d/%s" % (seed, prop))
    runs = []
    if prop == "C16":
        runs.append(tlc_run(["a", "b"], ["b"], ["a", "b", "z"], 2, 0, wd, "g3"))                     # every graph, 3 files
        r = tlc_run(["a", "b", "c"], ["b", "d"], ["a", "b", "c", "d", "z"], 1, 0, wd, "g5")          # 5 files, 1 include each
        runs.append(r)
        if not quick:
            runs.append(tlc_run(["a", "b", "c"], ["b"], ["a", "b", "c", "z"], 2, 0, wd, "g4"))       # every graph, 4 files, 2 includes
    else:
        runs.append(tlc_run(["a", "b"], ["b"], ["a", "b", "z"], 1, 1, wd, "h1"))                     # every history of 1 action
        runs.append(tlc_run(["a", "b"], ["b"], ["a", "b", "z"], 1, 2, wd, "h2", keep_one_in=100 if quick else 10))   # ... of 2 actions (thinned)
    behaviours = []
    for r in runs:
        recs = sorted(r.records, key=lambda x: json.dumps(x, sort_keys=True))
        behaviours.append(recs)
    if prop == "C07":
        # the exhaustive sets are large: replay a seeded subset of the 2-action histories and a subset of longer ones
        cap = [10000 if quick else 100000, 6000 if quick else 90000]
        picked = []
        for recs, c in zip(behaviours, cap):
            rng.shuffle(recs)
            picked += recs[:c]
        behaviours = [picked]
        # longer histories over more files (seeded random walks of the same model)
        r = tlc_run(["a", "b", "c"], ["b"], ["a", "b", "c", "z"], 1, 6, wd, "long", simulate=40 if quick else 600, seed=seed,
                    keep_one_in=10 if quick else 2)
        seen = set()
        longs = []
        for x in r.records:
            key = json.dumps(x, sort_keys=True)
            if key not in seen:
                seen.add(key)
                longs.append(x)
        longs.sort(key=lambda x: json.dumps(x, sort_keys=True))
        rng.shuffle(longs)
        behaviours.append(longs[:(400 if quick else 8000)])
        runs.append(r)
    elif quick:
        # quick: all 3-file graphs, a seeded subset of the 5-file ones
        rng.shuffle(behaviours[1])
        behaviours[1] = behaviours[1][:6000]
    flat = [b for recs in behaviours for b in recs]
    items, texts = [], []
    for b in flat:
        it, ta = to_item(len(items), b)
        items.append(it)
        texts.append(ta)
    log("%s %s: %d behaviours replayed (%d enumerated by TLC)" % (prop, tier, len(items), sum(r.emitted for r in runs)))
    recs, _ = common.run_harness(items, wd, "ws", timeout_ms=6000)
    shapes = {"self": 0, "diamond-or-dup": 0, "missing": 0, "inc-dir": 0}
    ncmp = 0
    for b, it, ta, rec in zip(flat, items, texts, recs):
        replay = {"behaviour": b}
        if rec.get("outcome") != "Ok":
            v.report("%s outcome=%s stage=set_root_file" % (prop, rec.get("outcome")), {"rec": rec}, replay)
            continue
        exps = [b["obs0"]] + [h["obs"] for h in b["hist"]]
        acts = ["init"] + [h["act"]["a"] for h in b["hist"]]
        for e, g, t, act in zip(exps, rec["steps"], ta, acts):
            ncmp += 1
            for part, detail in compare(e, g["obs"], t):
                v.report("%s %s after=%s" % (prop, part, act), dict(detail, step=act), replay)
            if prop == "C07" and not g["fresh_equal"]:
                v.report("C07 differs-from-fresh-analysis after=%s" % act, {"long_lived": g.get("long_lived"), "fresh": g.get("fresh")}, replay)
        for x in b["obs0"]["files"]:
            if any(t[0] == "" for t in x["links"]):
                shapes["missing"] += 1
            if any(t[0] == "inc" for t in x["links"]):
                shapes["inc-dir"] += 1
            if any(t == x["file"] for t in x["links"]):
                shapes["self"] += 1
            if len(x["links"]) != len(set(map(tuple, x["links"]))):
                shapes["diamond-or-dup"] += 1
    if not v.violations and min(shapes["missing"], shapes["inc-dir"], shapes["self"]) == 0:
        raise ToolError("vacuous: graph shapes %s" % shapes)
    cov = {"states": sum(r.distinct for r in runs), "transitions": sum(r.generated for r in runs),
           "traces_validated_against_impl": len(items), "samples": [flat[3], flat[len(flat) // 2]], "exhaustive": prop == "C16" and not quick,
           "behaviours_enumerated_by_tlc": sum(r.emitted for r in runs), "behaviours_replayed": len(items),
           "observations_compared": ncmp, "shapes": shapes,
           "explanation": ("Workspace.tla: every include graph over the configured files (self-includes, cycles, diamonds, duplicate "
                           "includes, missing targets, both search-path positions), expected workspace/links/not-found/outline from the "
                           "reference; " if prop == "C16" else
                           "Workspace.tla: every history of Touch / Reroot / DiskThenReroot up to the bound plus seeded longer walks; after "
                           "every action the observation is compared with the reference AND the full query set with a fresh host; ")
                          + "replayed on a long-lived AnalysisHost over an in-memory file system"}
    return v.finish("model_checking", cov, ["salsa's memoisation contract", "one include statement per line (renderer)"])


def check_c16(tier, seed):
    return run("C16", tier, seed)


def check_c07(tier, seed):
    return run("C07", tier, seed)


def replay(prop, path):
    d = json.load(open(path))
    b = d["replay"]["behaviour"]
    it, ta = to_item(0, b)
    rec = common.run_one(it)
    bad = rec.get("outcome") != "Ok"
    exps = [b["obs0"]] + [h["obs"] for h in b["hist"]]
    if not bad:
        for e, g, t in zip(exps, rec["steps"], ta):
            diffs = compare(e, g["obs"], t)
            if diffs or (prop == "C07" and not g["fresh_equal"]):
                bad = True
                print(json.dumps({"diffs": diffs, "fresh_equal": g["fresh_equal"]}, indent=1)[:3000])
    print(json.dumps({"files0": it["files0"], "root0": it["root0"], "steps": it["steps"], "outcome": rec.get("outcome")}, indent=1)[:3000])
    if bad:
        print("VIOLATION property=%s replay=%s" % (prop, path))
        return 1
    return 0
