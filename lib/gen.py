"""Input spaces for the text-level checks (C01, C02, C04 ...).  Pure enumeration / seeded sampling;
no expectations are computed here."""
import itertools
import os
import random

from common import CORPUS

# Lexeme atoms: every way to start and not finish a string, code block, block comment, directive,
# '..', unknown operator, lone '#', '#'+letters, 2-, 3- and 4-byte characters, unicode line breaks.
ATOMS = ["a", "0", "0x", "0b1", "7", "\"", "\"s\"", "\\", "[{", "}]", "/*", "*/", "//", "\n", "\r\n", "\r", " ", "\t",
         "#ifdef", "#ifdef X", "#ifndef X", "#else", "#endif", "#define X", "#define", "#", "#x", "..", "...", ".",
         "!zz", "!add", "!cond", "é", "€", "\U0001d11e", " ", "\x0c", "$", "$a", "class", "def", "let", "in",
         "{", "}", "<", ">", ";", "(", ")", "[", "]", ",", "=", ":", "-", "+", "?", "include", "defm", "multiclass",
         "foreach", "if", "then", "else", "X", "99999999999999999999", "18446744073709551616", "-9223372036854775809", "0x1" + "0" * 16, "\x00", "\x01", "\x0b", "\x7f", "\u00a0", "\ufeff"]


def atom_sequences(maxlen, atoms=None):
    atoms = atoms or ATOMS
    for k in range(0, maxlen + 1):
        for c in itertools.product(atoms, repeat=k):
            yield "".join(c)


def corpus_files():
    out = []
    for root, _d, files in os.walk(CORPUS):
        for f in sorted(files):
            if f.endswith(".td"):
                p = os.path.join(root, f)
                out.append((os.path.relpath(p, CORPUS), open(p, encoding="utf-8").read()))
    out.sort()
    return out


SAMPLES = [
    # hand-written seeds covering every statement kind; grown by Grammar.tla sentences at run time
    'include "foo.td"\nclass A<int x = 1, string s = "a" # "b"> : B<x, 2>, C { int f = x; let g = !add(x, 1); defvar v = [1, 2]; assert !eq(x, 1), "m"; }\n',
    'def d : A<1> { bits<4> b = {0, 1, 0, 1}; let b{1...2} = 0b01; code c = [{ return 1; }]; dag g = (add A:$x, $y, 3:$z); }\n',
    'let x = 1, y<1...3> = 0b101 in { def e; def f : A; }\nlet z = 2 in def h;\n',
    'multiclass M<int a> : N<a> { def _x : A<a>; defm _y : M2<a>; foreach i = [1, 2] in def _z # i; }\ndefm q : M<1>, M<2>;\n',
    'defset list<A> s = { def s1 : A; def s2 : A; }\ndefvar w = !if(!lt(1, 2), "a", "b");\ndump w;\n',
    'foreach i = {0...3, 5} in { def f#i; }\nforeach j = 1...4 in def g#j;\nforeach k = [1, 2] in { if !eq(k, 1) then { def k1; } else { def k2; } }\n',
    'if true then def t1; else def t2;\nassert true, "ok";\nclass L { list<int> l = [1, 2, 3]<int>; int e = l[0]; list<int> sl = l[0...1, 2]; int m = !cond(true: 1, false: 2); }\n',
    '#ifdef X\nclass P;\n#else\nclass Q;\n#endif\n#define X\n#ifndef X\nclass R;\n#endif\nclass S; // c\n/* b */ def T : S;\n',
    'class V<bits<2> w = {0, 1}, list<string> ls = ["a", "b"], dag d = (V 1), code cc = [{x}]> { field int ff = ?; string s2 = "q\\"e\\\\"; }\n',
    'def : A;\ndef X#Y : A { let f = X.g.h; int n = !foldl(0, [1, 2], a, b, !add(a, b)); list<int> m = !foreach(x, [1], !mul(x, 2)); }\n',
]


def lines_prefix(text, nlines):
    return "".join(text.splitlines(True)[:nlines])


def corpus_snippets(rng, n, maxlines=40):
    files = corpus_files()
    out = []
    for _ in range(n):
        _name, t = files[rng.randrange(len(files))]
        ls = t.splitlines(True)
        if not ls:
            continue
        a = rng.randrange(len(ls))
        out.append("".join(ls[a:a + rng.randrange(1, maxlines)]))
    return out


def char_prefixes(text):
    """every prefix that ends on a char boundary (python strings are code points already)"""
    for i in range(len(text) + 1):
        yield text[:i]


NOISE = ["é", "€", "\U0001d11e", " ", "\x00", "\x7f", "﻿", "\\", "\"", "'", "`", "@", "%", "\x0b"]
UNTERMINATORS = ["\"", "[{", "/*", "#ifdef X\n", "#ifdef\n", "#else\n", "#ifndef", "\"\\", "!", "$", ".."]


def noise_variants(rng, text, n):
    out = []
    for _ in range(n):
        k = rng.randrange(1, 4)
        t = text
        for _ in range(k):
            i = rng.randrange(len(t) + 1)
            op = rng.randrange(3)
            x = NOISE[rng.randrange(len(NOISE))]
            if op == 0:
                t = t[:i] + x + t[i:]
            elif op == 1 and i < len(t):
                t = t[:i] + x + t[i + 1:]
            elif i < len(t):
                t = t[:i] + t[i + 1:]
        out.append(t)
    return out


def token_mutants(rng, toks, n, double=False):
    """toks: list of token texts (all tokens incl. trivia).  Single (or double) token deletions,
    insertions, duplications, transpositions."""
    out = []
    if not toks:
        return out
    for _ in range(n):
        t = list(toks)
        for _ in range(2 if double else 1):
            if not t:
                break
            i = rng.randrange(len(t))
            op = rng.randrange(4)
            if op == 0:
                del t[i]
            elif op == 1:
                t.insert(i, toks[rng.randrange(len(toks))])
            elif op == 2:
                t.insert(i, t[i])
            elif i + 1 < len(t):
                t[i], t[i + 1] = t[i + 1], t[i]
        out.append("".join(t))
    return out


def unterminated(toks):
    """insert an opener that is never closed at EVERY token boundary"""
    out = []
    for i in range(len(toks) + 1):
        for u in UNTERMINATORS:
            out.append("".join(toks[:i]) + u + "".join(toks[i:]))
    return out


LADDERS = [
    ("[", "1", "]", "defvar v = %s;"),
    ("!add(", "1, 1", ")", "defvar v = %s;"),
    ("{", "1", "}", "defvar v = %s;"),
    ("(op ", "1", ")", "defvar v = %s;"),
    ("A<", "1", ">", "defvar v = %s;"),
    ("!cond(true: ", "1", ")", "defvar v = %s;"),
]


def ladders(depths=(1, 2, 4, 8, 16, 32, 64, 128, 256, 384, 640, 1000)):
    out = []
    for d in depths:
        for o, core, c, tmpl in LADDERS:
            out.append(tmpl % (o * d + core + c * d))
            out.append(tmpl % (o * d + core))            # never closed
        out.append("if 1 then { " * d + "def x;" + " }" * d)
        out.append("foreach i = [1] in { " * d + "def x;" + " }" * d)
        out.append("let a = 1 in { " * d + "def x;")
        out.append("class A<list<" * 1 + "list<" * d + "int" + ">" * d + "> x>;")
        out.append("#ifdef X\n" * d + "def x;\n" + "#endif\n" * d)
        out.append("#ifndef X\n" * d + "def x;\n" + "#else\n" * 1)
        out.append("def x { int a = " + "v[" * d + "0" + "]" * d + "; }")
        out.append("def x { int a = v" + ".f" * d + "; }")
        out.append("def x { string a = " + "\"s\" # " * d + "\"e\"; }")
    return out


def rng_for(seed, tag):
    return random.Random("%s/%s" % (seed, tag))
