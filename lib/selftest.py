"""Self-test of the machinery (vacuity guard): every trace spec must reject a corrupted observation."""
import json
import os

import common
from common import ToolError, log


def run():
    wd = common.workdir("selftest")
    n = 0
    n += obs_selftest(wd)
    log("selftest ok: %d corrupted observations rejected, clean ones accepted" % n)
    return 0


def obs_selftest(wd):
    import p_text
    good = {"id": 1, "outcome": "Ok", "len": 8, "ntok": 3, "nontrivia": 2, "steps": 20, "nraw": 3, "ts": [0, 5, 6], "te": [5, 6, 8],
            "tq": [True, True, True], "tb": [True, True, True], "tk": [], "treeEq": True,
            "errs": [[5, 6, True, True, 10]], "root": "SourceFile", "lastb": True}
    cases = [("C01", good, None)]

    def mut(prop, clause, **kw):
        r = json.loads(json.dumps(good))
        r.update(kw)
        cases.append((prop, r, clause))
    mut("C01", "tokens-tile-the-input", ts=[0, 4, 6])
    mut("C01", "token-range-is-position-of-its-text", tq=[True, False, True])
    mut("C01", "last-token-ends-at-len", te=[5, 6, 7])
    mut("C01", "tree-text-equals-input", treeEq=False)
    mut("C01", "first-token-starts-at-0", ts=[1, 5, 6])
    cases.append(("C02", good, None))
    mut("C02", "work-bounded-by-tokens", steps=10 ** 6)
    mut("C02", "error-message-nonempty", errs=[[5, 6, True, True, 0]])
    mut("C02", "error-range-inside-text", errs=[[5, 9, True, True, 3]])
    mut("C02", "error-range-on-char-boundaries", errs=[[5, 6, True, False, 3]])
    cases.append(("C02", {"id": 1, "outcome": "Panic", "msg": "x", "len": 3}, "terminates-without-panic"))
    cases.append(("C02", {"id": 1, "outcome": "Hang"}, "terminates-without-panic"))
    k = 0
    for prop in ("C01", "C02"):
        batch = [(r, c) for p, r, c in cases if p == prop]
        recs = []
        for i, (r, _c) in enumerate(batch):
            r = dict(r)
            r["id"] = i
            recs.append(r)
        path = os.path.join(wd, "self-%s.ndjson" % prop)
        common.write_ndjson(path, recs)
        res = common.run_tlc("ObsTrace.tla", os.path.join(common.SPEC, "ObsTrace.cfg"), wd, env={"TRACE": path, "PROP": prop})
        common.tlc_must(res, "selftest " + prop)
        rj = {x["id"]: x["clauses"] for x in p_text.parse_rejects(res)}
        for i, (_r, c) in enumerate(batch):
            if c is None and i in rj:
                raise ToolError("selftest: clean %s observation rejected: %s" % (prop, rj[i]))
            if c is not None and (i not in rj or c not in rj[i]):
                raise ToolError("selftest: corrupted %s observation (%s) not rejected: %s" % (prop, c, rj.get(i)))
            k += 1
    return k
