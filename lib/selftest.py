"""Self-test of the machinery (vacuity guard): every trace spec must reject a corrupted observation."""
import json
import os

import common
from common import ToolError, log


def run():
    wd = common.workdir("selftest")
    n = 0
    n += obs_selftest(wd)
    n += hooks_selftest(wd)
    log("selftest ok: %d corrupted observations rejected, clean ones accepted" % n)
    return 0


def obs_selftest(wd):
    import p_text
    good = {"id": 1, "outcome": "Ok", "len": 8, "ntok": 3, "nontrivia": 2, "steps": 20, "nraw": 3, "ts": [0, 5, 6], "te": [5, 6, 8],
            "tq": [True, True, True], "tb": [True, True, True], "tk": [], "treeEq": True,
            "errs": [[5, 6, True, True, 10]], "root": "SourceFile", "lastb": True}
    cases = [("C01", good, None)]

    def mut(prop, clause, **kw):
        r = json.loads(json.dumps(good))
        r.update(kw)
        cases.append((prop, r, clause))
    mut("C01", "tokens-tile-the-input", ts=[0, 4, 6])
    mut("C01", "token-range-is-position-of-its-text", tq=[True, False, True])
    mut("C01", "last-token-ends-at-len", te=[5, 6, 7])
    mut("C01", "tree-text-equals-input", treeEq=False)
    mut("C01", "first-token-starts-at-0", ts=[1, 5, 6])
    cases.append(("C02", good, None))
    mut("C02", "work-bounded-by-tokens", steps=10 ** 6)
    mut("C02", "error-message-nonempty", errs=[[5, 6, True, True, 0]])
    mut("C02", "error-range-inside-text", errs=[[5, 9, True, True, 3]])
    mut("C02", "error-range-on-char-boundaries", errs=[[5, 6, True, False, 3]])
    cases.append(("C02", {"id": 1, "outcome": "Panic", "msg": "x", "len": 3}, "terminates-without-panic"))
    cases.append(("C02", {"id": 1, "outcome": "Hang"}, "terminates-without-panic"))
    k = 0
    for prop in ("C01", "C02"):
        batch = [(r, c) for p, r, c in cases if p == prop]
        recs = []
        for i, (r, _c) in enumerate(batch):
            r = dict(r)
            r["id"] = i
            recs.append(r)
        path = os.path.join(wd, "self-%s.ndjson" % prop)
        common.write_ndjson(path, recs)
        res = common.run_tlc("ObsTrace.tla", os.path.join(common.SPEC, "ObsTrace.cfg"), wd, env={"TRACE": path, "PROP": prop})
        common.tlc_must(res, "selftest " + prop)
        rj = {x["id"]: x["clauses"] for x in p_text.parse_rejects(res)}
        for i, (_r, c) in enumerate(batch):
            if c is None and i in rj:
                raise ToolError("selftest: clean %s observation rejected: %s" % (prop, rj[i]))
            if c is not None and (i not in rj or c not in rj[i]):
                raise ToolError("selftest: corrupted %s observation (%s) not rejected: %s" % (prop, c, rj.get(i)))
            k += 1
    return k


def hooks_selftest(wd):
    """TraceServerImpl binds ServerImpl.tla to the hook log: a recorded log is accepted, corrupted ones are rejected at the corrupted step"""
    import copy
    import p_server
    h = json.load(open(os.path.join(os.path.dirname(os.path.abspath(__file__)), "fixtures", "hooks_probe.json")))
    logs = {0: h}
    h1 = copy.deepcopy(h)
    e = h1.pop(h1.index(["task1", "publish", 0]))
    j = [k for k, x in enumerate(h1) if x[:2] == ["main", "content_set"]][1]
    h1.insert(j + 1, e)
    logs[1] = h1                                                   # a publish after the next input write
    logs[2] = [x for x in h if x[1] != "vfs_w_acquired"]          # a hook removed
    h3 = copy.deepcopy(h)
    a = h3.index(["main", "content_set", 0])
    h3[a], h3[a + 1] = h3[a + 1], h3[a]
    logs[3] = h3                                                   # two steps of the main loop swapped
    logs[4] = [x for x in h if x[:2] != ["task2", "start"]]       # a task that never started ends
    h5 = copy.deepcopy(h)
    h5.append(h5.pop(h5.index(["task1", "end", 0])))
    logs[5] = h5                                                   # an end reported late: still a behaviour
    verdicts, _ = p_server.validate_hooks(logs, wd, "selftest")
    want = {0: "accepted", 1: "rejected", 2: "rejected", 3: "rejected", 4: "rejected", 5: "accepted"}
    for k, w in want.items():
        if verdicts.get(k, ("none",))[0] != w:
            raise ToolError("selftest: hook log %d should be %s by TraceServerImpl, got %s" % (k, w, verdicts.get(k)))
    return len(want)
