"""Workspace generators for the analysis-level checks (C03, C06, C17): single- and multi-file workspaces over
valid, mutated, truncated, decorated (non-ASCII, CRLF, BOM) and nonsensical programs."""
import os
import random

import gen
from common import CORPUS

# semantically meaningful programs: every symbol kind, every use position the indexer visits
RICH = {
    "basic": {
        "/w/main.td": 'include "base.td"\ninclude "ops.td"\n\n// doc for Add\n// second line\nclass Add<int a, int b = 2> : Base<a>, Named<"add"> {\n  int sum = !add(a, b);\n  let width = 8;\n  string s = name # "_x";\n  defvar tmp = !mul(a, 2);\n  int twice = tmp;\n  assert !gt(a, 0), "positive";\n}\n\ndef add1 : Add<1>;\ndef add2 : Add<1, 3> { let sum = 5; }\ndefvar top = add1.sum;\ndef user { int v = top; Base b = add1; list<Base> bs = [add1, add2]; }\nforeach i = [1, 2, 3] in {\n  def f#i : Add<i>;\n}\nforeach j = 0...3 in def g#j : Base<j>;\nif !eq(top, 3) then { def yes : Base<1>; } else { def no : Base<0>; }\nlet width = 16 in { def wide : Base<2>; }\ndefset list<Base> all = {\n  def s1 : Base<1>;\n  def s2 : Base<2>;\n}\nmulticlass M<int k> {\n  def _a : Base<k>;\n  def _b : Add<k, k>;\n}\ndefm inst : M<4>;\ndump top;\n',
        "/w/base.td": '// the base\nclass Base<int w> {\n  int width = w;\n  bits<4> enc = {0, 0, 1, 1};\n  bit flag = enc{0};\n  list<int> l = [1, 2, 3];\n  int first = l[0];\n  dag d = (ops w:$x, 1);\n  code c = [{ return; }];\n}\ndef ops;\n',
        "/w/ops.td": 'class Named<string n> { string name = n; }\nclass Pair<int x, string y> { int fst = x; string snd = y; }\ndef p : Pair<1, "a"> { int q = !foldl(0, [1, 2], acc, e, !add(acc, e)); list<int> m = !foreach(x, [1, 2], !add(x, 1)); list<int> f = !filter(x, [1, 2], !gt(x, 1)); list<int> m2 = !foreach(y , [1, 2], !add(y, 1)); list<int> f2 = !filter(z /* kept */ , [1, 2], !gt(z, 1)); int q2 = !foldl(0, [1, 2], acc2 /* running */\n    , e2 , !add(acc2, e2)); int c = !cond(!eq(fst, 1): 1, true: 0); }\n',
    },
    "diamond": {
        "/w/main.td": 'include "a.td"\ninclude "b.td"\ndef top : A, B;\ndef use { D x = dd; }\n',
        "/w/a.td": 'include "d.td"\nclass A : D;\n',
        "/w/b.td": 'include "d.td"\nclass B : D { int extra = shared; }\n',
        "/w/d.td": 'class D { int shared = 1; }\ndef dd : D;\n',
    },
    "nested-include": {
        "/w/main.td": 'class Early;\nif true then { include "inc/x.td" }\ndef after : X;\n',
        "/w/inc/x.td": 'include "y.td"\nclass X : Y;\n',
        "/w/inc/y.td": 'class Y { int y = 1; }\n',
    },
    # overrides: uses of a field before and after a `let` of it in the same record, in a subclass, through an included class;
    # the same identifier at the same offset in two files
    "override": {
        "/w/main.td": 'include "lib.td"\nclass B { int x = 1; int y = x; string nm = "b"; }\nclass C : B { int w = x; let x = 2; int z = x; }\n'
                      'def d : B { int a = x; let x = 3; int b = x; let nm = "d"; string q = nm; }\n'
                      'def e : L { int a = lx; let lx = 3; int b = lx; int c = ly; }\ndef same : L;\ndef f : C { let x = 4; int k = x; let x = 5; int m = x; }\n',
        "/w/lib.td": 'class L { int lx = 1; int ly = lx; }\ndef same : L;\ndef g : L { let lx = 2; int h = lx; }\n',
    },
    # shadowing across kinds: an outer variable and an inner field / template argument of the same name
    "shadow": {
        "/w/main.td": 'defvar n = 1;\nclass A<int n> { int v = n; }\nclass F { int n = 2; int u = n; }\nforeach m = [1, 2] in {\n  def r#m { int m = 3; int t = m; }\n}\n'
                      'multiclass MC<int n> { def _a { int q = n; } defvar k = n; }\ndef o { int p = n; }\nlet n = 5 in def l : F { int s = n; }\n',
    },
    # non-ASCII text in the trivia that follows a closing token, an include path, the end of the file
    "trivia": {
        "/w/main.td": 'include "sub.td" /* 日本語 */\nclass A {\n  int x = 1;\n}\n// 日本語のコメント\nforeach i = [1] in {\n  def d#i;\n} // ü€\U0001d11e\n'
                      '#ifdef NOPE\n日本語 tokens ü\n#endif\nmulticlass M { def a; } /*é*/\nif 1 then {\n  def t;\n} /* 日本 */ else {\n  def u;\n}\n// 終わり',
        "/w/sub.td": 'class S {\n}\n// 日本語',
    },
    # an include inside a defset body: the header's defs join the defset of ANOTHER file
    "defset-include": {
        "/w/main.td": 'class B;\ndefset list<B> all = {\n  include "members.td"\n  def own : B;\n}\ndef after : B;\n',
        "/w/members.td": '// the members, declared in a header that is longer than the file that includes it .............................\ndef m1 : B;\ndef m2 : B { int x = 1; }\nclass Inner { int y = 2; }\n',
    },
    # a malformed defset (no "=") in a short header, declarations in the longer file that includes it
    "defset-noeq": {
        "/w/main.td": 'include "h.td"\ndef later1 : B;\ndef later_with_a_long_name_2 : B { int x = 1; }\n// ünïcödé ünïcödé ünïcödé\ndef later3 : B;\n',
        "/w/h.td": 'class B;\ndefset list<B> All;\n',
    },
    # named template arguments: quoted names (also non-ASCII), unknown names, a name given twice
    "named-args": {
        "/w/main.td": 'class A<int n, string s = "d">;\ndef d1 : A<"größ" = 1, n = 2>;\ndef d2 : A<"n" = 1, "n" = 2>;\ndef d3 : A<"é" = 1>;\n'
                      'def d4 : A<n = 1, "sé" = "x">;\ndef d5 : A<zz = 1, n = 1>;\ndef d6 : A<1, "日本" = "y">;\ndefvar v = A<"ß" = 1>;\n',
    },
    # a field inherited from a LONG header is overridden / re-declared in a short file; a let block around an include
    "override-far": {
        "/w/main.td": 'include "far.td"\ndef e : Far { let fx = 3; int b = fx; }\nclass R : Far { int fx = 7; int u = fx; }\nlet fy = 16 in { include "inner.td" }\n',
        "/w/far.td": '// ' + 'a long header, longer than the file that includes it. ' * 12 + '\nclass Far { int fx = 1; int fy = fx; string こ = "x"; }\n',
        "/w/inner.td": 'def in1 : Far;\ndef in2 : Far { int q = fy; }\n',
    },
    # conditionals still open at the end of a file whose last character is not ASCII (no final line break)
    "open-conditional": {
        "/w/main.td": 'include "h.td"\n#ifdef X\nclass A;\n#else\nclass B;\n// 終',
        "/w/h.td": '#ifndef G\nclass H;\n// €',
    },
    "stress": {
        "/w/main.td": 'class A : A { let x = 1; }\nclass B;\nclass B<int n> : B { int n2 = n; }\nclass C<int C> { int C2 = C; }\ndef C : C<1>;\ndef d { int d = 1; int e = d; }\nclass F { int f = f; }\ndef : F;\ndef : F { let f = 2; }\ndefm : Nope<1>;\ndefm named : Nope;\nmulticlass M2 : M2 { def x; }\nmulticlass M3<int a> : M2 { defm y : M3<a>; }\nlet nosuch = 1 in def q;\nclass G<int g = g> ;\nclass H : G<1, 2, 3>, G<"s">, Missing<1>;\ndef h { int a = !add(1); int b = !add(1, "s"); int c = nope; int e = h.a.b; list<int> l = [1, "a"]; int s = l[0][1]; }\nforeach i = i in def r#i;\nforeach k = [] in def;\ndefset list<Missing> ds = { def in_ds; }\ndefset int bad = { }\ndefvar v = v;\ndefvar v = 1;\nassert v, v;\n',
    },
}

STRESS_SNIPPETS = [
    "class A : A;", "class A<int x> : A<x>;", "class A; class A : A { let f = 1; }", "def a : a;", "def x { let y = 1; }",
    "class A { int f; } class B : A { let f = 1; let f = 2; int f = 3; }", "multiclass M { def a; } defm : M; defm : M;",
    "multiclass M<int x> { defm q : M<x>; }", "class A<int a, int a>;", "def d#d;", "def \"s\"#1 : A;", "class A<> ;",
    "foreach i = [1] in foreach i = [i] in def x#i;", "defvar a = 1; defvar a = a;", "let a = 1 in let a = a in def d { int z = a; }",
    "class A { int x = !foreach(x, [1], x); }", "class A { int x = !foldl(x, x, x, x, x); }", "def x { int y = !filter(a, [1], a); }",
    "class A<int x = !cond(x: x)>;", "def A; class A : A;", "defset list<int> s = { defset list<int> s = { def s; } }",
    "if 1 then if 2 then def a; else def b;", "class A { field int x = ?; } def d : A { let x{0...1} = 3; }",
    "def x { list<int> f = !filter(0, [1, 2], 1); int y = 1; }\ndefvar z = 1;", "def x { list<int> f = !foreach(0, [1, 2], 1); int y = 1; }\ndefvar z = 1;",
    "def x { int f = !foldl(0, [1, 2], 0, 0, 1); int y = f; }\ndefvar z = 1;", "class Reg<int num>; def R0 : Reg<0 = 1, 2>; def R1 : Reg<1 = 1>; def R2 : Reg<x = 1, 2, 3>;",
    "class Reg<int num>; def R0 : Reg<, 2>; def R1 : Reg<1, , 2>; defvar v = Reg<= 1, 2>;", "defvar v = !cond(: 1, 1: ); def d { int f = !if(, 1, 2); int g = 1; }",
    "class A<A a>;", "class A<list<A> a = [a]>;", "def x : x<x> { x x = x; }", "include \"main.td\"", "include \"nofile.td\"\ndef a;",
    "class A<int n>; def d : A<n = 1>; def e : A<\"n\" = 1, \"n\" = 2>; def f : A<\"m\" = 1>;", "def d { int x = NAME; string s = NAME; }",
    "class A { dag d = (A A:$A, $b); } def e : A { let d = (e e); }", "def x { bits<2> b = {1, 0}; bit c = b{5}; int i = b{0}{0}; }",
    "def x { list<int> l = [1][0...1]; int y = [1][0]; }", "class A; def a : A; def u { list<A> l = [a]; A f = l[0]; int n = l[0].nope; }",
]


def decorate(rng, text):
    """non-ASCII in comments/strings adjacent to identifiers, CRLF, BOM"""
    out = []
    mode = rng.randrange(5)
    for ch in text:
        if ch == " " and rng.random() < 0.15:
            out.append(rng.choice(["/*é*/", " /*\U0001d11e*/ ", " //€\n", "\t", "  "]))
        elif ch == "\n" and mode in (1, 2):
            out.append("\r\n" if mode == 1 else rng.choice(["\r\n", "\n", "\r"]))
        else:
            out.append(ch)
    t = "".join(out)
    if mode == 3:
        t = "﻿" + t
    if mode == 4:
        t = "// ünïcode €\n" + t
    return t


def lattice(depth):
    files = {"/w/main.td": 'include "l1a.td"\ninclude "l1b.td"\ndef top : K%da;\n' % depth}
    for i in range(1, depth + 1):
        for side in "ab":
            nxt = 'include "l%da.td"\ninclude "l%db.td"\n' % (i + 1, i + 1) if i < depth else ""
            files["/w/l%d%s.td" % (i, side)] = nxt + "class K%d%s;\n" % (i, side)
    return files


def workspaces(tier, seed, programs):
    """yields (tag, item) -- item = {files, root, ...} for the harness kind 'analysis'"""
    quick = tier == "quick"
    rng = random.Random("%d/ws" % seed)
    out = []

    def add(tag, files, root, **kw):
        it = {"kind": "analysis", "files": files, "root": root, "tag": tag}
        it.update(kw)
        out.append(it)

    for name, files in RICH.items():
        for root in sorted(files):
            add("rich:" + name, files, root)
        # every prefix of the root, cut at line granularity and at seeded token positions
        main = files["/w/main.td"]
        for k in range(len(main.splitlines(True)) + 1):
            f2 = dict(files)
            f2["/w/main.td"] = gen.lines_prefix(main, k)
            add("rich-prefix:" + name, f2, "/w/main.td")
        for _ in range(10 if quick else 80):
            f2 = dict(files)
            f2["/w/main.td"] = main[:rng.randrange(len(main) + 1)]
            add("rich-prefix:" + name, f2, "/w/main.td")
        for _ in range(10 if quick else 60):
            f2 = {p: decorate(rng, t) for p, t in files.items()}
            add("rich-decorated:" + name, f2, "/w/main.td")
    # layered headers: two per layer, each including both of the next layer (2n+1 files, 2^n include paths): every file is
    # indexed once, so the answer comes at once however deep the lattice is
    for depth in (3, 12, 28):
        add("lattice:%d" % depth, lattice(depth), "/w/main.td")
    for s in STRESS_SNIPPETS:
        add("stress", {"/w/main.td": s}, "/w/main.td")
        add("stress", {"/w/main.td": 'include "lib.td"\n' + s, "/w/lib.td": s}, "/w/main.td")
        add("stress-decorated", {"/w/main.td": decorate(rng, s + "\n" + s)}, "/w/main.td")
    for i, p in enumerate(programs):
        add("grammar-program", {"/w/main.td": p}, "/w/main.td")
        if i % 3 == 0:
            add("grammar-program-decorated", {"/w/main.td": decorate(rng, p)}, "/w/main.td")
        if i % 4 == 0:
            # split over two files with an include in between
            add("grammar-program-2files", {"/w/main.td": 'include "part.td"\n' + p, "/w/part.td": programs[(i * 7 + 1) % len(programs)]},
                "/w/main.td")
    return out


def mutant_workspaces(tier, seed, token_lists):
    """token_lists: list of (files, path, tokens of that file).  Single-token edits of one file of a workspace."""
    rng = random.Random("%d/wsmut" % seed)
    out = []
    n = 25 if tier == "quick" else 250
    for files, path, toks in token_lists:
        for t in gen.token_mutants(rng, toks, n):
            f2 = dict(files)
            f2[path] = t
            out.append({"kind": "analysis", "files": f2, "root": "/w/main.td", "tag": "token-mutant"})
    return out


def corpus_workspaces(tier):
    out = []
    files = sorted(os.path.join(CORPUS, n) for n, _t in gen.corpus_files())
    for p in files:
        out.append({"kind": "analysis", "files_dir": CORPUS, "root": p, "include_dir": CORPUS, "offsets": "sample",
                    "max_offsets": 30 if tier == "quick" else 150, "tag": "corpus"})
    return out


def hierarchy_skeletons(tier, seed):
    """every program of <= 3 class/def statements over the names {A, B}: parents from {none, A, B, A+B}, body from
    {';', override of an unknown/inherited field, use of an unknown/inherited name} -- the shapes behind unguarded
    recursion over the class hierarchy (forward declarations, redefinitions, self/mutual parents)."""
    import itertools
    parents = ["", " : A", " : B", " : A, B"]
    bodies = [";", " { let x = 1; }", " { int y = x; }"]
    stmts = ["class %s%s%s" % (n, p, b) for n in "AB" for p in parents for b in bodies]
    stmts += ["def d%s { let x = 1; int z = x; }" % p for p in parents]
    out = []
    rng = random.Random("%d/hier" % seed)
    for k in (1, 2, 3):
        for c in itertools.product(stmts, repeat=k):
            out.append({"kind": "analysis", "files": {"/w/main.td": "\n".join(c) + "\n"}, "root": "/w/main.td", "tag": "hierarchy-skeleton",
                        "offsets": "sample", "max_offsets": 6})
    if tier != "quick":
        for _ in range(60000):
            c = [rng.choice(stmts) for _ in range(4)]
            out.append({"kind": "analysis", "files": {"/w/main.td": "\n".join(c) + "\n"}, "root": "/w/main.td", "tag": "hierarchy-skeleton",
                        "offsets": "sample", "max_offsets": 6})
    return out
