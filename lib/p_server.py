"""Server-level checks driven by spec/Server.tla:
   C11 published diagnostics converge / versions monotone      (sessions from SessionGen.tla, validated by TraceServer.tla)
   C12 editor buffers are the source of truth                  (same sessions with outline requests)
   C08 server liveness                                         (schedules from ServerImpl.tla replayed under the controlled scheduler)
The harness runs the real lsp::server::Server in-process and records the JSON-RPC trace; TLC is the judge."""
import json
import os
import random
import re

import common
from common import log, Verdict, ToolError

FILES = ["a", "b", "c"]
FILE_CFG = 'File = {"a", "b", "c"}'


def render_text(f, t):
    parts = ['include "%s.td"' % g for g in t["inc"]]
    parts.append("class M_%s_%d;" % (f, t["k"]))
    if t["faulty"]:
        parts.append("def X_%s_%d : U_%s_%d;" % (f, t["k"], f, t["k"]))
    sep = "\n" if t.get("lay", 0) in (0, 2) else " "      # 0 / 1: same byte offsets, different line structure
    head = "// moved down\n" if t.get("lay", 0) == 2 else ""   # 2: the same statements, every offset shifted
    return head + sep.join(parts) + "\n"


def lsp_range(text, needle):
    """LSP range (0-based line, UTF-16 column) of the first occurrence of needle -- reference position mapper"""
    i = text.index(needle)

    def pos(off):
        before = text[:off]
        line = before.count("\n")
        col = len(before) - (before.rfind("\n") + 1)
        return "%d:%d" % (line, len(before[len(before) - col:].encode("utf-16-le")) // 2)
    return "%s-%s" % (pos(i), pos(i + len(needle)))


def with_marks(f, t):
    """the text record as Server.tla wants it: markers carry the range they occupy in the rendered text"""
    t = dict(t)
    if t["k"] < 0:
        t.update({"um": "", "mm": "", "lay": 0})
        return t
    text = render_text(f, t)
    m = "M_%s_%d" % (f, t["k"])
    u = "U_%s_%d" % (f, t["k"])
    t["mm"] = "%s@%s" % (m, lsp_range(text, m))
    t["um"] = "%s@%s" % (u, lsp_range(text, u)) if t["faulty"] else ""
    t.setdefault("lay", 0)
    return t


def tlc_sessions(max_events, wd, tag="sessions"):
    cfg = ('SPECIFICATION GSpec\nCONSTANTS\n  %s\n  MaxEvents = %d\n  Next1 <- Ring\nINVARIANT EmitSession\nCHECK_DEADLOCK FALSE\n'
           % (FILE_CFG, max_events))
    r = common.run_tlc("SessionGen.tla", cfg, os.path.join(wd, tag), workers=8, timeout=1800)
    common.tlc_must(r, "SessionGen")
    return r.records, r


def session_item(i, s, wd, mode, outline):
    """mode: 'settled' (quiet after every event) | 'burst' (all events back to back, one quiet at the end)"""
    disk = {}
    for f in FILES:
        t = s["disk"][f]
        if t["k"] >= 0:
            disk[f + ".td"] = render_text(f, t)
    steps = []
    known = set()
    docver = {}          # the editor's version of each document
    for e in s["hist"]:
        f = e["file"]
        if e["ev"] in ("Save", "Close"):
            # (didSave / didClose: the server keeps its buffer; whatever follows is answered from it)
            steps.append({"op": e["ev"].lower(), "file": f + ".td"})
            if e["ev"] == "Close" and mode == "settled" and outline:
                steps.append({"op": "request", "method": "textDocument/documentSymbol", "file": f + ".td", "f": f})
                steps.append({"op": "quiet"})
            continue
        # (versions need only increase within one open period: the first period starts high, a re-opened document starts at 1 again)
        docver[f] = (10 if e["ev"] == "Open" else 1) if e["ev"] in ("Open", "Reopen") else docver.get(f, 0) + 1
        steps.append({"op": {"Open": "open", "Reopen": "reopen"}.get(e["ev"], "change"), "file": f + ".td", "v": docver[f],
                      "text": render_text(f, e["t"]), "t": e["t"], "f": f})
        known.add(f)
        if mode == "settled":
            steps.append({"op": "quiet"})
            if outline:
                for g in sorted(known):
                    steps.append({"op": "request", "method": "textDocument/documentSymbol", "file": g + ".td", "f": g})
                steps.append({"op": "quiet"})
    if mode == "burst":
        steps.append({"op": "quiet"})
        if outline:
            for g in sorted(known):
                steps.append({"op": "request", "method": "textDocument/documentSymbol", "file": g + ".td", "f": g})
            steps.append({"op": "quiet"})
    it = {"id": i, "kind": "session", "dir": os.path.join(wd, "fs", "run%d" % i), "disk": disk, "steps": steps, "quiet_ms": 20000}
    if i % 2 == 1:
        it["client"] = "full"
    return it


def rng_str(r):
    return "%d:%d-%d:%d" % (r["start"]["line"], r["start"]["character"], r["end"]["line"], r["end"]["character"])


def markers_of_diags(diags):
    out = []
    for d in diags:
        m = d["msg"]
        mm = re.search(r"\b(U_\w+)", m)              # (the undefined class named in the message, whatever the wording)
        if mm:
            out.append("%s@%s" % (mm.group(1), rng_str(d["range"])))
            continue
        mm = re.search(r"\b(\w+)\.td\b", m)
        if mm:
            out.append("NF:" + mm.group(1))
            continue
        out.append("OTHER:" + m)
    return sorted(set(out))


def outline_markers(result):
    if not isinstance(result, list):
        return []
    return sorted("%s@%s" % (x["name"], rng_str(x["range"])) for x in result
                  if isinstance(x, dict) and str(x.get("name", "")).startswith("M_"))


def to_trace(run, s, item, rec, conv=True):
    """recorded events of one run -> TraceServer events.  conv = False: convergence of diagnostics is not evaluated at Quiet, so that
    a run is never rejected for C11's reason before its responses (C12) have been looked at"""
    ev = [{"ev": "Reset"}]
    if rec.get("outcome") == "Skipped":
        return ev + [{"ev": "End", "run": run}]
    for f in FILES:
        t = s["disk"][f]
        ev.append({"ev": "Disk", "file": f, "t": with_marks(f, t)})
    sent = [st for st in item["steps"] if st["op"] in ("open", "change", "reopen")]
    si = 0
    if rec.get("outcome") in ("Crash", "Hang", "Panic"):
        ev.append({"ev": "Crash"})
    for e in rec.get("events", []):
        k = e["ev"]
        if k in ("Open", "Change"):
            st = sent[si]
            si += 1
            ev.append({"ev": k, "file": st["f"], "t": with_marks(st["f"], st["t"])})
        elif k == "Publish":
            ev.append({"ev": "Publish", "file": e["file"].replace(".td", ""), "version": e["version"], "markers": markers_of_diags(e["diags"])})
        elif k == "Request":
            ev.append({"ev": "Request", "id": e["id"], "kind": "outline" if e["method"].endswith("documentSymbol") else "other",
                       "file": e["file"].replace(".td", "")})
        elif k == "Response":
            ev.append({"ev": "Response", "id": e["id"], "markers": outline_markers(e["result"]) if e.get("ok") else ["ERROR"]})
        elif k == "Quiet":
            ev.append({"ev": k, "conv": conv})
        elif k == "NoQuiescence":
            ev.append({"ev": k})
    ev.append({"ev": "End", "run": run})
    return ev


def validate(traces, wd, tag):
    """traces: list of event lists (one per run).  returns {run: (verdict, why)} and TLC state count"""
    path = os.path.join(wd, "trace-%s.ndjson" % tag)
    flat = [e for t in traces for e in t]
    common.write_ndjson(path, flat)
    cfg = 'SPECIFICATION TSpec\nCONSTANTS\n  %s\nPOSTCONDITION AllConsumed\nCHECK_DEADLOCK FALSE\n' % FILE_CFG
    r = common.run_tlc("TraceServer.tla", cfg, os.path.join(wd, "tv-" + tag), workers=1, timeout=3600, env={"TRACE": path}, heap="8g")
    common.tlc_must(r, "TraceServer")
    if r.distinct != len(flat) + 1:
        raise ToolError("TraceServer consumed %d of %d events" % (r.distinct - 1, len(flat)))
    return {x["run"]: (x["verdict"], x["why"]) for x in r.records}, r.distinct


def leaves_with_problems(s):
    """does some event but the last make a file that had diagnostics leave the workspace?  (Reach / Diag of Server.tla, replayed)"""
    opened = {}
    prev_diag = set()
    for i, e in enumerate(s["hist"]):
        if e["ev"] == "Close":
            continue
        opened[e["file"]] = e["t"]
        root = e["file"]
        over = lambda f: opened.get(f) or (s["disk"][f] if s["disk"][f]["k"] >= 0 else None)
        reach, todo = set(), [root]
        while todo:
            f = todo.pop()
            if f in reach or over(f) is None:
                continue
            reach.add(f)
            todo.extend(g for g in over(f)["inc"] if g in FILES)
        diag = {f for f in reach if over(f)["faulty"] or any(g not in FILES or over(g) is None for g in over(f)["inc"])}
        if i < len(s["hist"]) - 1 and (prev_diag - reach):
            return True
        prev_diag = diag
    return False


def pick_sessions(tier, seed, wd):
    quick = tier == "quick"
    s2, r2 = tlc_sessions(2, wd, "s2")
    s3, r3 = tlc_sessions(3, wd, "s3")      # (4 events exhaustively no longer finishes with re-open / save / three layouts: deeper ones are simulated)
    rng = random.Random("%d/sessions" % seed)
    interesting = [s for s in s2 if any(len(s["disk"][f]["inc"]) or s["disk"][f]["faulty"] for f in FILES) or True]
    rng.shuffle(interesting)
    longer = [s for s in s3 if len(s["hist"]) >= 3]
    rng.shuffle(longer)
    # deeper sessions by seeded simulation (5-6 events): long enough for open / change / re-open / change histories of one document
    cfg = ('SPECIFICATION GSpec\nCONSTANTS\n  %s\n  MaxEvents = 6\n  Next1 <- Ring\nINVARIANT EmitSession\nCHECK_DEADLOCK FALSE\n' % FILE_CFG)
    rs = common.run_tlc("SessionGen.tla", cfg, os.path.join(wd, "sim"), simulate=(400 if quick else 12000), depth=7, seed=seed, timeout=1800)
    common.tlc_must(rs, "SessionGen simulation")
    deep = {}
    for x in rs.records:
        if len(x["hist"]) >= 4:
            deep[json.dumps(x["hist"], sort_keys=True) + json.dumps(x["disk"], sort_keys=True)] = x
    deep = [deep[k] for k in sorted(deep)]
    rng.shuffle(deep)
    # a document that is changed, re-opened and changed again comes first
    def reopened_and_changed(s):
        seen = {}
        for e in s["hist"]:
            st = seen.get(e["file"], 0)
            if e["ev"] == "Change" and st in (0, 1):
                seen[e["file"]] = 1
            elif e["ev"] == "Reopen" and st == 1:
                seen[e["file"]] = 2
            elif e["ev"] == "Change" and st == 2:
                return True
        return False
    deep.sort(key=lambda s: 0 if reopened_and_changed(s) else 1)
    longer = deep[:(150 if quick else 6000)] + longer
    n2, n3 = (500, 700) if quick else (6000, 14000)
    stats = {"states": r2.distinct + r3.distinct + rs.distinct, "transitions": r2.generated + r3.generated + rs.generated,
             "sessions_enumerated": len(s2) + len(s3), "deeper_sessions_simulated": len(deep)}
    return interesting[:n2] + longer[:n3], stats


def fingerprint(prop, why, s):
    w = re.sub(r" @line \d+", "", why)
    w = re.sub(r"file:///\S*/(real|ws)/", r"<\1>/", w)
    w = re.sub(r"M_(\w)_\d+(@[\d:\-]+)?", r"M_\1_k", w)
    shape = "events=" + ",".join("%s:%s%s%s" % (e["ev"][0], e["file"], "+inc" if e["t"]["inc"] else "", "+fault" if e["t"]["faulty"] else "")
                                  for e in s["hist"][:4])
    return "%s %s" % (prop, w), shape


def run_sessions(prop, tier, seed, outline, relevant):
    v = Verdict(prop, tier, seed)
    wd = common.workdir("%s-%s" % (prop, tier))
    sessions, stats = pick_sessions(tier, seed, wd)
    items, meta = [], []
    for s in sessions:
        for mode in ("settled", "burst"):
            if mode == "burst" and len(s["hist"]) < 2:
                continue
            items.append(session_item(len(items), s, wd, mode, outline))
            meta.append((s, mode))
    if prop == "C11":
        # adversarial hold schedules: a diagnostics task parked at a hook while the session goes on; sessions in which a file
        # with problems leaves the workspace before the last event come first (its clearing publication is the one a superseded
        # run must not lose)
        multi = [s for s in sessions if len(s["hist"]) >= 2]
        multi.sort(key=lambda s: 0 if leaves_with_problems(s) else 1)
        holds = [("task1", "publish", 1), ("task1", "start", 1), ("task2", "publish", 1), ("task1", "publish", 2), ("main", "spawn", 2)]
        for j, s in enumerate(multi[:(40 if tier == "quick" else 600)]):
            for (w, p_, n) in holds:
                it = session_item(len(items), s, wd, "burst", outline)
                it["hold"] = {"who": w, "point": p_, "nth": n, "stall_ms": 200}
                items.append(it)
                meta.append((s, "hold:%s@%s#%d" % (w, p_, n)))
    if prop == "C12":
        # configuration: the workspace directory is reached through a symbolic link
        base = len(items)
        for j in range(0, base, 9):
            it = dict(items[j])
            it["id"] = len(items)
            it["dir"] = os.path.join(wd, "fs", "run%d" % it["id"])
            it["symlink"] = True
            items.append(it)
            meta.append((meta[j][0], meta[j][1] + "+symlink"))
        # configuration: a workspace path with a character the editor percent-encodes in URIs and the url crate does not ("+")
        for j in range(4, base, 9):
            it = dict(items[j])
            it["id"] = len(items)
            it["dir"] = os.path.join(wd, "fs", "run+%d" % it["id"])
            items.append(it)
            meta.append((meta[j][0], meta[j][1] + "+plus-in-path"))
    log("%s %s: %d server sessions" % (prop, tier, len(items)))
    send = [{k: val for k, val in it.items()} for it in items]
    recs, _ = common.run_harness(send, wd, "sessions", timeout_ms=90000, jobs=12)
    traces = [to_trace(i, meta[i][0], items[i], recs[i], conv=(prop != "C12")) for i in range(len(items))]
    verdicts, states = validate(traces, wd, "all")
    rejected = 0
    other = {}
    for i in range(len(items)):
        verdict, why = verdicts.get(i, ("rejected", "no-verdict"))
        if verdict == "accepted":
            continue
        if not any(k in why for k in relevant):
            other[re.sub(r" @line \d+", "", why).split(" ")[0]] = other.get(why.split(" ")[0], 0) + 1
            continue
        rejected += 1
        fp, shape = fingerprint(prop, why, meta[i][0])
        v.report(fp, {"mode": meta[i][1], "shape": shape, "why": why, "events": recs[i].get("events", [])[:40]},
                 {"session": meta[i][0], "mode": meta[i][1], "outline": outline, "hold": items[i].get("hold")})
    if other:
        log("note: %d runs rejected for reasons belonging to other properties: %s" % (sum(other.values()), other))
    samples = [{"disk": {f: s["disk"][f] for f in FILES}, "events": s["hist"], "mode": m} for s, m in (meta[0], meta[len(meta) // 2], meta[-1])]
    cov = {"states": stats["states"] + states, "transitions": stats["transitions"] + states,
           "traces_validated_against_impl": len(items), "samples": samples, "exhaustive": False,
           "sessions_enumerated_by_tlc": stats["sessions_enumerated"], "sessions_replayed": len(items),
           "rejected_runs": rejected, "runs_rejected_for_other_properties": other,
           "explanation": "SessionGen.tla enumerates all session histories up to the bound over 3 files x 4 text variants x disk "
                          "configurations; a seeded subset is replayed on the real in-process server in two pacing modes; the "
                          "recorded JSON-RPC traces are validated by TraceServer.tla (TLC)"}
    return v, cov


def check_c11(tier, seed):
    v, cov = run_sessions("C11", tier, seed, False, ["version-decreased", "diagnostics-not-converged", "publish-for-unknown-file"])
    return v.finish("model_checking", cov, ["markers identify text versions (no second analysis as oracle)",
                                            "idle = every notification processed, every spawned task ended (hook counters)"])


def check_c12(tier, seed):
    v, cov = run_sessions("C12", tier, seed, True, ["buffer-not-source-of-truth", "publish-for-unknown-file"])
    return v.finish("model_checking", cov, ["markers identify text versions", "documentSymbol is the probe for which text the server analysed"])


def replay(prop, path):
    if prop == "C08":
        return replay_c08(path)
    d = json.load(open(path))
    r = d["replay"]
    wd = common.workdir("replay-" + prop)
    it = session_item(0, r["session"], wd, "burst" if r["mode"].startswith("hold") else r["mode"].replace("+symlink", "").replace("+plus-in-path", ""), r.get("outline", False))
    if "+symlink" in r["mode"]:
        it["symlink"] = True
    if r.get("hold"):
        it["hold"] = r["hold"]
    rec = common.run_one(it)
    tr = to_trace(0, r["session"], it, rec)
    verdicts, _ = validate([tr], wd, "replay")
    print(json.dumps({"session": r["session"], "mode": r["mode"], "events": rec.get("events"), "verdict": verdicts.get(0)},
                     indent=1)[:8000])
    if verdicts.get(0, ("rejected", ""))[0] != "accepted":
        print("VIOLATION property=%s replay=%s" % (prop, path))
        return 1
    return 0


# ---------------------------------------------------------------------------------------------
# C08: schedules

REQ_KINDS = [
    ("textDocument/documentSymbol", {}),
    ("textDocument/definition", {"position": {"line": 1, "character": 7}}),
    ("textDocument/references", {"position": {"line": 1, "character": 7}, "context": {"includeDeclaration": True}}),
    ("textDocument/hover", {"position": {"line": 1, "character": 7}}),
    ("textDocument/inlayHint", {"range": {"start": {"line": 0, "character": 0}, "end": {"line": 2, "character": 0}}}),
    ("textDocument/completion", {"position": {"line": 1, "character": 0}}),
    ("textDocument/documentLink", {}),
    ("textDocument/foldingRange", {}),
]


def msgs_session(i, msgs, wd, rot, schedule=None, hold=None, big=False, same_kind=False):
    """the concrete session for an abstract message sequence: N = didOpen/didChange of a.td (which includes b.td), R = a request"""
    body = "".join("def D%d : M_b_0;\n" % j for j in range(400)) if big else ""
    disk = {"b.td": "class M_b_0;\n" + ("def Y : U_b_0;\n" if rot % 2 else "")}
    steps, k, r = [], 0, rot
    for m in msgs:
        if m == "N":
            k += 1
            text = 'include "b.td"\nclass M_a_%d : M_b_0;\n%s' % (k, body)
            steps.append({"op": "open" if k == 1 else "change", "file": "a.td", "v": k, "text": text})
        else:
            method, params = REQ_KINDS[r % len(REQ_KINDS)]
            r += 0 if same_kind else 1
            if k == 0:
                # a request before any document is known would be a client error: open first
                k += 1
                steps.append({"op": "open", "file": "a.td", "v": k, "text": 'include "b.td"\nclass M_a_%d : M_b_0;\n' % k})
            steps.append({"op": "request", "method": method, "file": "a.td", "params": params})
    it = {"id": i, "kind": "session", "dir": os.path.join(wd, "fs", "run%d" % i), "disk": disk, "steps": steps, "quiet_ms": 20000}
    if i % 2 == 0:
        it["client"] = "full"           # every other run: a client that announces an editor's full capabilities (and answers server requests)
    if schedule:
        it["schedule"] = schedule
    if hold:
        it["hold"] = hold
    return it


def tlc_schedules(msgs_name, wd, variant="snapshot-copy"):
    cfg = ('SPECIFICATION Spec\nCONSTANTS\n  Msgs <- %s\n  NFiles = 2\n  Variant = "%s"\n  SplitEnd = FALSE\nINVARIANT EmitSchedule\n' % (msgs_name, variant))
    r = common.run_tlc("MCServerImpl.tla", cfg, os.path.join(wd, "sched-" + msgs_name), workers=8, timeout=1800)
    common.tlc_must(r, "ServerImpl schedules " + msgs_name)
    return r


def model_check_impl(wd, quick=True):
    """the design-level result: deadlock freedom, liveness under fairness, C11's ordering invariants"""
    out = {}
    for name in ("MsgsNRNR", "MsgsNNN", "MsgsNRRN"):
        for split in ("FALSE", "TRUE"):
            cfg = ('SPECIFICATION Spec\nCONSTANTS\n  Msgs <- %s\n  NFiles = 2\n  Variant = "snapshot-copy"\n  SplitEnd = %s\nVIEW view\n'
                   'INVARIANT VersionsMonotone\nINVARIANT ConvergesAtQuiescence\nINVARIANT SnapshotsAreCurrent\nINVARIANT NoLockInversion\n'
                   'PROPERTY EveryRequestAnswered\n' % (name, split))
            r = common.run_tlc("MCServerImpl.tla", cfg, os.path.join(wd, "mc-%s-%s" % (name, split)), workers=4, timeout=900, coverage=True)
            common.tlc_must(r, "ServerImpl model check %s SplitEnd=%s" % (name, split))
            out[name + ("/split-end" if split == "TRUE" else "")] = {"distinct": r.distinct, "generated": r.generated}
    # the same under an open client: every message sequence up to the bound, sent at any time (ServerImplOpen.tla)
    n = 6 if quick else 7
    cfg = ('SPECIFICATION OSpec\nCONSTANTS\n  Msgs <- TraceMsgs%d\n  NFiles = 2\n  Variant = "snapshot-copy"\n  SplitEnd = TRUE\nVIEW oview\n'
           'INVARIANT VersionsMonotone\nINVARIANT SnapshotsAreCurrent\nINVARIANT NoLockInversion\nINVARIANT ConvergesWhenIdle\nPROPERTY AllHandled\n' % n)
    r = common.run_tlc("MCServerImplOpen.tla", cfg, os.path.join(wd, "mc-open"), workers=6, timeout=3000)
    common.tlc_must(r, "ServerImplOpen model check")
    out["open-client/%d-messages" % n] = {"distinct": r.distinct, "generated": r.generated}
    # witness: the pre-fix variant deadlocks in the model
    cfg = 'SPECIFICATION Spec\nCONSTANTS\n  Msgs <- MsgsNRNR\n  NFiles = 2\n  Variant = "shared-lock"\n  SplitEnd = FALSE\nVIEW view\n'
    r = common.run_tlc("MCServerImpl.tla", cfg, os.path.join(wd, "mc-shared"), workers=4, timeout=900)
    if "Deadlock reached" not in r.out:
        raise ToolError("ServerImpl(shared-lock) should deadlock in the model: the model lost its ability to express the defect")
    out["shared-lock-variant-deadlocks"] = True
    # second witness: a task that gives up its snapshot before it publishes breaks the ordering invariant in the model
    cfg = 'SPECIFICATION Spec\nCONSTANTS\n  Msgs <- MsgsNNN\n  NFiles = 2\n  Variant = "early-release"\n  SplitEnd = FALSE\nVIEW view\nINVARIANT VersionsMonotone\n'
    r = common.run_tlc("MCServerImpl.tla", cfg, os.path.join(wd, "mc-early"), workers=4, timeout=900)
    if "Invariant VersionsMonotone is violated" not in r.out:
        raise ToolError("ServerImpl(early-release) should violate VersionsMonotone in the model")
    out["early-release-variant-breaks-version-order"] = True
    return out


def check_c08(tier, seed):
    v = Verdict("C08", tier, seed)
    wd = common.workdir("C08-%s" % tier)
    quick = tier == "quick"
    mc = model_check_impl(wd, quick)
    rng = random.Random("%d/c08" % seed)
    items, meta = [], []
    states = sum(x["distinct"] for x in mc.values() if isinstance(x, dict))
    trans = sum(x["generated"] for x in mc.values() if isinstance(x, dict))
    nsched = 0
    for name, per in (("MsgsNRNR", 60 if quick else 1500), ("MsgsNNN", 40 if quick else 800), ("MsgsNRRN", 40 if quick else 1200)):
        r = tlc_schedules(name, wd)
        states += r.distinct
        trans += r.generated
        nsched += len(r.records)
        recs = sorted(r.records, key=lambda x: json.dumps(x["sched"]))
        rng.shuffle(recs)
        for x in recs[:per]:
            items.append(msgs_session(len(items), x["msgs"], wd, rng.randrange(8), schedule=x["sched"]))
            meta.append({"family": "model-schedule", "msgs": x["msgs"], "sched": x["sched"]})
    # adversarial hold family: park one thread at one hook, let everybody else run until nobody moves, release
    holds = []
    for nth in (1, 2, 3):
        for p in ("notif_enter", "vfs_w_acquired", "content_set", "root_set", "vfs_w_released", "spawn", "notif_exit"):
            holds.append({"who": "main", "point": p, "nth": nth})
    for t in (1, 2, 3, 4):
        for p, nth in (("start", 1), ("publish", 1), ("publish", 2), ("end", 1)):
            holds.append({"who": "task%d" % t, "point": p, "nth": nth})
    shapes = [["N", "N", "R", "N"], ["N", "R", "N", "R", "N"], ["R", "N", "R", "R", "N", "N"]]
    for h in holds:
        for sh in (shapes if not quick else shapes[:2]):
            hh = dict(h)
            hh["stall_ms"] = 250
            items.append(msgs_session(len(items), sh, wd, rng.randrange(8), hold=hh, big=(h["who"] != "main")))
            meta.append({"family": "hold", "msgs": sh, "hold": h})
    # uncontrolled bursts
    for _ in range(40 if quick else 600):
        sh = [rng.choice("NNR") for _ in range(rng.randrange(3, 12))]
        items.append(msgs_session(len(items), sh, wd, rng.randrange(8), big=rng.random() < 0.3))
        items[-1]["steps"].append({"op": "quiet"})
        meta.append({"family": "burst", "msgs": sh})
    # pipelined requests of one and the same kind for one document (a newer request may supersede an older one of its kind)
    for kind in range(len(REQ_KINDS)):
        for sh in ((["N"] + ["R"] * 40), (["N"] + ["R"] * 25 + ["N"] + ["R"] * 25)) if not quick or kind % 2 == 0 else ((["N"] + ["R"] * 40),):
            items.append(msgs_session(len(items), sh, wd, kind, big=(kind % 3 == 0), same_kind=True))
            items[-1]["steps"].append({"op": "quiet"})
            meta.append({"family": "burst", "msgs": sh, "same_kind": REQ_KINDS[kind][0]})
    # the binary as shipped: bursts with more requests in flight than the machine has cores
    binary = build_binary()
    nburst = 0
    for k, nn in ((4, 1), (12, 1), (40, 1), (100, 1), (60, 4)) + (() if quick else ((200, 1), (300, 8), (33, 2), (17, 1))):
        for rep in range(1 if quick else 3):
            nburst += 1
            answered, alive = stdio_burst(binary, os.path.join(wd, "fs", "bin%d_%d_%d" % (k, nn, rep)), k, rng.randrange(8), nn)
            if answered < k:
                v.report("C08 binary-burst requests-unanswered in-flight=%s process-%s" % ("<=cores" if k <= (os.cpu_count() or 1) else ">cores",
                                                                                           "alive" if alive else "died"),
                         {"requests": k, "answered": answered, "notifications": nn, "cores": os.cpu_count()},
                         {"binary_burst": {"requests": k, "notifications": nn}})
    log("C08 %s: %d controlled/uncontrolled server runs (%d schedules enumerated by TLC)" % (tier, len(items), nsched))
    recs, _ = common.run_harness(items, wd, "c08", timeout_ms=120000, jobs=8)
    traces = []
    for i, (it, rec) in enumerate(zip(items, recs)):
        ev = [{"ev": "Reset"}]
        if rec.get("outcome") == "Skipped":
            traces.append(ev + [{"ev": "End", "run": i}])
            continue
        if rec.get("outcome") in ("Crash", "Hang", "Panic"):
            ev.append({"ev": "Crash"})
        for e in rec.get("events", []):
            if e["ev"] == "Request":
                ev.append({"ev": "Request", "id": e["id"], "kind": "other", "file": "a"})
            elif e["ev"] == "Response":
                ev.append({"ev": "Response", "id": e["id"], "markers": []})
            elif e["ev"] == "Quiet":
                ev.append({"ev": "Quiet", "conv": True})
            elif e["ev"] == "NoQuiescence":
                ev.append({"ev": e["ev"]})
        if not any(e["ev"] in ("Quiet", "NoQuiescence", "Crash") for e in ev):
            ev.append({"ev": "NoQuiescence"})
        ev.append({"ev": "End", "run": i})
        traces.append(ev)
    verdicts, tstates = validate(traces, wd, "c08")
    # MODEL-DRIFT: every hook log (free-running or controlled) must be a behaviour of ServerImpl.tla
    hverd, hstates = validate_hooks({i: rec["hooks"] for i, rec in enumerate(recs) if rec.get("hooks")}, wd, "c08")
    tstates += hstates
    hook_rejected = {i: x for i, x in hverd.items() if x[0] != "accepted"}
    for i, x in sorted(hook_rejected.items())[:5]:
        log("MODEL-DRIFT: hook log of run %d (%s) is not a behaviour of ServerImpl.tla: %s" % (i, meta[i]["family"], x[1]))
    drift = 0
    reached = 0
    for i, rec in enumerate(recs):
        m = meta[i]
        if m["family"] == "model-schedule" and rec.get("diverged"):
            drift += 1
        if m["family"] == "hold" and rec.get("hold_reached"):
            reached += 1
        verdict, why = verdicts.get(i, ("rejected", "no-verdict"))
        if verdict == "accepted":
            continue
        fam = m["family"]
        where = ""
        if fam == "hold":
            where = " hold=%s@%s#%d" % (m["hold"]["who"], m["hold"]["point"], m["hold"]["nth"])
        fp = "C08 %s family=%s%s" % (re.sub(r" @line \d+", "", why), fam, where)
        v.report(fp, {"meta": m, "counters": rec.get("counters"), "diverged": rec.get("diverged"), "hooks_tail": rec.get("hooks", [])[-12:]},
                 {"item": {k: val for k, val in items[i].items()}})
    nm = sum(1 for m in meta if m["family"] == "model-schedule")
    if not v.violations and reached < 10:
        raise ToolError("vacuous: only %d hold points were reached" % reached)
    level = "model_checking"
    cov = {"states": states + tstates, "transitions": trans + tstates, "traces_validated_against_impl": len(items),
           "samples": [meta[0], meta[nm + 3], meta[-1]], "exhaustive": False,
           "model_check": mc, "schedules_enumerated_by_tlc": nsched, "model_schedules_replayed": nm,
           "model_schedules_diverged(MODEL-DRIFT)": drift, "hook_logs_validated_against_ServerImpl": len(hverd),
           "hook_logs_rejected(MODEL-DRIFT)": len(hook_rejected),
           "hook_log_rejections": sorted({re.sub(r" @line \d+", "", x[1]) for x in hook_rejected.values()})[:8], "hold_runs": sum(1 for m in meta if m["family"] == "hold"),
           "hold_points_reached": reached, "burst_runs": sum(1 for m in meta if m["family"] == "burst"), "binary_stdio_bursts": nburst,
           "explanation": "ServerImpl.tla model-checked (deadlock, liveness under weak fairness, ordering invariants); its maximal behaviours are "
                          "enumerated and a seeded subset replayed on the real server under the hook-controlled scheduler; plus the "
                          "adversarial hold family and uncontrolled bursts; every JSON-RPC trace validated by TraceServer.tla (Answered at Quiet); "
                          "every hook log validated against ServerImpl.tla by TraceServerImpl.tla (the code follows the model's protocol)"}
    if drift > nm // 2 or hook_rejected:
        log("MODEL-DRIFT: %d of %d model schedules diverged on the real server, %d of %d hook logs are not behaviours of the model; "
            "the model-checking claim is withdrawn for this run" % (drift, nm, len(hook_rejected), len(hverd)))
        level = "exploration"
        cov.update({"evaluations": len(items), "distinct_nontrivial": len(items), "rule": "server runs; see explanation"})
    return v.finish(level, cov, ["schedules are explored at hook granularity; synchronisation inside salsa/tokio is modelled, not explored",
                                 "idle = every notification processed, every spawned task ended, every request answered"])


def replay_c08(path):
    d = json.load(open(path))
    if "binary_burst" in d["replay"]:
        b = d["replay"]["binary_burst"]
        wd = common.workdir("replay-C08")
        answered, alive = stdio_burst(build_binary(), os.path.join(wd, "fs"), b["requests"], 0, b["notifications"])
        print(json.dumps({"requests": b["requests"], "answered": answered, "process_alive": alive}))
        if answered < b["requests"]:
            print("VIOLATION property=C08 replay=%s" % path)
            return 1
        return 0
    it = d["replay"]["item"]
    rec = common.run_one(it)
    print(json.dumps({"outcome": rec.get("outcome"), "counters": rec.get("counters"), "diverged": rec.get("diverged"),
                      "hooks": rec.get("hooks"), "events": [e for e in rec.get("events", []) if e["ev"] != "Publish"]}, indent=1)[:6000])
    if rec.get("outcome") != "Ok" or not any(e["ev"] == "Quiet" for e in rec.get("events", [])):
        print("VIOLATION property=C08 replay=%s" % path)
        return 1
    return 0


# ---------------------------------------------------------------------------------------------
# the binary as shipped, over stdio, uncontrolled

def build_binary():
    import subprocess
    td = os.path.join(common.HARNESS, "target", "repo-bin")
    env = dict(os.environ)
    env["CARGO_NET_OFFLINE"] = "true"
    p = subprocess.run(["cargo", "build", "--offline", "--quiet", "-p", "lsp", "--bin", "lsp", "--manifest-path", "/repo/Cargo.toml",
                        "--target-dir", td], env=env, stdout=subprocess.PIPE, stderr=subprocess.STDOUT, text=True)
    if p.returncode != 0:
        raise ToolError("cannot build the lsp binary: " + p.stdout[-1500:])
    return os.path.join(td, "debug", "lsp")


FULL_CLIENT = {"workspace": {"applyEdit": True, "configuration": True, "workspaceFolders": True, "inlayHint": {"refreshSupport": True},
                             "semanticTokens": {"refreshSupport": True}, "codeLens": {"refreshSupport": True}, "diagnostics": {"refreshSupport": True}},
               "textDocument": {"publishDiagnostics": {"relatedInformation": True, "versionSupport": True}, "inlayHint": {"dynamicRegistration": True},
                                "hover": {"contentFormat": ["markdown", "plaintext"]}, "definition": {"linkSupport": True}},
               "window": {"workDoneProgress": True, "showDocument": {"support": True}}, "general": {"positionEncodings": ["utf-16"]}}


def stdio_burst(binary, d, nreq, rot, nnotif=1, timeout=25.0):
    """one process: initialize, didOpen, then nreq requests (and more didChange) written in ONE write; returns #answered"""
    import subprocess
    import threading
    import time
    os.makedirs(d, exist_ok=True)
    open(os.path.join(d, "b.td"), "w").write("class M_b_0;\n")
    a_uri = "file://%s/a.td" % d

    def frame(o):
        b = json.dumps(o).encode()
        return b"Content-Length: %d\r\n\r\n" % len(b) + b
    p = subprocess.Popen([binary], stdin=subprocess.PIPE, stdout=subprocess.PIPE, stderr=subprocess.DEVNULL)
    got = {}
    done = threading.Event()
    wlock = threading.Lock()

    def reader():
        f = p.stdout
        while True:
            h = b""
            while not h.endswith(b"\r\n\r\n"):
                c = f.read(1)
                if not c:
                    return
                h += c
            n = int([l for l in h.decode().split("\r\n") if l.startswith("Content-Length")][0].split(":")[1])
            body = json.loads(f.read(n))
            if "id" in body and "method" in body:
                # a request of the server to the client: answered at once, as an editor would
                with wlock:
                    p.stdin.write(frame({"jsonrpc": "2.0", "id": body["id"], "result": None}))
                    p.stdin.flush()
            elif "id" in body:
                got[body["id"]] = True
                if len(got) >= nreq + 1:
                    done.set()
    t = threading.Thread(target=reader, daemon=True)
    t.start()
    caps = FULL_CLIENT if (nreq + nnotif) % 2 == 0 else {}
    p.stdin.write(frame({"jsonrpc": "2.0", "id": 0, "method": "initialize", "params": {"capabilities": caps}}))
    p.stdin.flush()
    t0 = time.time()
    while 0 not in got and time.time() - t0 < 10:
        time.sleep(0.01)
    buf = frame({"jsonrpc": "2.0", "method": "initialized", "params": {}})
    buf += frame({"jsonrpc": "2.0", "method": "textDocument/didOpen", "params": {"textDocument": {
        "uri": a_uri, "languageId": "tablegen", "version": 1, "text": 'include "b.td"\nclass M_a_1 : M_b_0;\n'}}})
    for i in range(nreq):
        m, params = REQ_KINDS[(rot + i) % len(REQ_KINDS)]
        prm = dict(params)
        prm["textDocument"] = {"uri": a_uri}
        buf += frame({"jsonrpc": "2.0", "id": i + 1, "method": m, "params": prm})
        if nnotif > 1 and i % max(1, nreq // nnotif) == 0:
            buf += frame({"jsonrpc": "2.0", "method": "textDocument/didChange", "params": {"textDocument": {"uri": a_uri, "version": i + 2},
                          "contentChanges": [{"text": 'include "b.td"\nclass M_a_%d : M_b_0;\n' % (i + 2)}]}})
    with wlock:
        p.stdin.write(buf)
        p.stdin.flush()
    done.wait(timeout)
    answered = len(got) - 1
    alive = p.poll() is None
    p.kill()
    return answered, alive


# ---------------------------------------------------------------------------------------------------------------------
# MODEL-DRIFT: the hook log of every run must be a behaviour of ServerImpl.tla (spec/TraceServerImpl.tla)

def hook_trace(run, hooks):
    """hook log [[who, point, tid]...] -> events; the message sequence is read off the main loop's own steps"""
    msgs, inside = [], False
    for w, p, t in hooks:
        if w == "main" and p == "notif_enter":
            inside = True
            msgs.append("N")
        elif w == "main" and p == "notif_exit":
            inside = False
        elif w == "main" and p == "spawn" and not inside:
            msgs.append("R")
    ev = [{"ev": "Reset", "msgs": msgs}]
    for w, p, t in hooks:
        if w == "main":
            ev.append({"ev": "H", "w": "main", "p": p, "t": t})
        else:
            ev.append({"ev": "H", "w": "task", "p": p, "t": int(w[4:])})
    ev.append({"ev": "End", "run": run})
    return ev


def validate_hooks(logs, wd, tag):
    """logs: {run: hooks}; returns ({run: (verdict, why, monotone)}, states)"""
    verdicts, states = {}, 0
    runs = sorted(logs)
    B = 150
    for b in range(0, len(runs), B):
        lines = []
        for r in runs[b:b + B]:
            lines.extend(hook_trace(r, logs[r]))
        path = os.path.join(wd, "hooks-%s-%d.ndjson" % (tag, b))
        common.write_ndjson(path, lines)
        res = common.run_tlc("TraceServerImpl.tla", os.path.join(common.SPEC, "TraceServerImpl.cfg"), os.path.join(wd, "tlc-hooks-%s-%d" % (tag, b)),
                             env={"TRACE": path}, workers=1, timeout=1800, dfs=True)
        common.tlc_must(res, "TraceServerImpl")
        states += res.distinct
        for x in res.records:
            verdicts[x["run"]] = (x["verdict"], x["why"], x["monotone"], x["leftover"])
    return verdicts, states
