"""C10 position mapping: direction A, exhaustive.  spec/LineIndex.tla enumerates every text up to the bound over the
9 character classes and emits the expected offset<->position tables; every entry is compared with the real
lsp::to_proto::position / lsp::from_proto::position."""
import json
import os
import random

import common
from common import log, Verdict, ToolError

CLASSES = ["a", "s", "LF", "CR", "b2", "b3", "b4", "FF", "LS"]


def tlc_tables(maxlen, wd, texts=None, tag="exh"):
    cfg = "SPECIFICATION Spec\nCONSTANT MaxLen = %d\nINVARIANT Laws\nINVARIANT Emit\nCHECK_DEADLOCK FALSE\n" % maxlen
    env = {"TEXTS": ""}
    if texts is not None:
        p = os.path.join(wd, "texts-%s.json" % tag)
        json.dump(texts, open(p, "w"))
        env["TEXTS"] = p
    r = common.run_tlc("LineIndex.tla", cfg, os.path.join(wd, "li-" + tag), workers=8, timeout=3600, env=env)
    common.tlc_must(r, "LineIndex " + tag)
    return r


def check_c10(tier, seed):
    v = Verdict("C10", tier, seed)
    wd = common.workdir("C10-%s" % tier)
    quick = tier == "quick"
    maxlen = 4 if quick else 6
    r1 = tlc_tables(maxlen, wd)
    rng = random.Random("%d/c10" % seed)
    long_texts = []
    for _ in range(150 if quick else 2000):
        n = rng.randrange(7, 40 if quick else 70)
        # line-break heavy and astral heavy mixes
        w = rng.choice([[3, 1, 3, 3, 1, 1, 2, 1, 1], [2, 1, 1, 1, 2, 2, 4, 1, 1], [1] * 9])
        long_texts.append(rng.choices(CLASSES, weights=w, k=n))
    r2 = tlc_tables(1, wd, long_texts, "long")
    behaviours = r1.records + r2.records
    items = [{"id": i, "kind": "pos", "text": b["text"], "to": b["to"], "from": b["from"]} for i, b in enumerate(behaviours)]
    # one LineIndex shared by 8 threads (the tasks of a revision share the memoised one): ten of the long texts, and very long lines
    # whose single-threaded answers are the comparison (no table from the reference needed: the same code, one thread)
    for it in items[-10:]:
        it["concurrent"] = True
    nconc = 10
    for k in range(6):
        cls = rng.choices(["a", "s", "b2", "b3", "b4", "LF"], weights=[30, 8, 2, 1, 1, 0 if k < 4 else 1], k=1500)
        items.append({"id": len(items), "kind": "pos", "text": cls, "to": [], "from": [], "concurrent": True})
        behaviours.append({"text": cls, "to": [], "from": []})
        nconc += 1
    log("C10 %s: %d texts (%d exhaustive up to length %d, %d long)" % (tier, len(items), len(r1.records), maxlen, len(r2.records)))
    recs, _ = common.run_harness(items, wd, "pos", timeout_ms=20000)
    entries = 0
    bad_texts = 0
    for b, rec, it in zip(behaviours, recs, items):
        if rec.get("outcome") != "Ok":
            v.report("C10 LineIndex::new outcome=%s " % rec.get("outcome"), {"text": b["text"], "rec": rec}, {"text": b["text"], "to": b["to"], "from": b["from"]})
            bad_texts += 1
            continue
        bad = None
        for exp, got in zip(b["to"], rec["to"]):
            entries += 1
            if list(exp) != list(got) and bad is None:
                cls = "panic" if got[1] == "panic" else ("line" if exp[1] != got[1] else "column")
                feat = features(b["text"])
                bad = ("C10 to_proto %s-differs text-has=%s" % (cls, feat), {"offset": exp[0], "expected": exp[1:], "got": got[1:]})
        for exp, got in zip(sorted(map(list, b["from"])), sorted(rec["from"], key=lambda x: (x[0], x[1]))):
            entries += 1
            if list(exp) != list(got[:3]) and bad is None:
                cls = "panic" if got[2] == "panic" else "offset"
                bad = ("C10 from_proto %s-differs text-has=%s" % (cls, features(b["text"])), {"position": exp[:2], "expected": exp[2], "got": got[2:]})
        if rec.get("races") and bad is None:
            bad = ("C10 to_proto differs-when-the-line-index-is-shared-by-threads text-has=%s" % features(b["text"]), {"mismatches": rec["races"]})
        for rr in rec.get("ranges", []):
            entries += 1
            if bad is None:
                bad = ("C10 %s_proto range-differs-from-its-end-positions text-has=%s" % ("to" if rr[2].startswith("to") else "from", features(b["text"])),
                       {"offsets": rr[:2], "what": rr[2], "positions": rr[3] if len(rr) > 3 else None, "range": rr[4] if len(rr) > 4 else None})
        if bad:
            bad_texts += 1
            v.report(bad[0], dict(bad[1], text=b["text"]), {"text": b["text"], "to": b["to"], "from": b["from"]})
    cov = {"states": r1.distinct + r2.distinct, "transitions": r1.generated + r2.generated, "traces_validated_against_impl": len(items),
           "samples": [behaviours[7], behaviours[len(behaviours) // 2], behaviours[-1]], "exhaustive": True,
           "exhaustive_up_to_length": maxlen, "texts": len(items), "table_entries_compared": entries, "texts_with_mismatch": bad_texts,
           "long_texts": len(r2.records),
           "explanation": "every text over the 9 character classes up to the bound: full offset->(line,col16) table for every char boundary and "
                          "(line,col)->offset table for every line and every column up to one past the line end (columns inside a surrogate "
                          "pair and offsets inside a CR LF pair carry no round-trip obligation); laws (round trip, monotone, clamping, "
                          "only LF/CR/CRLF end lines) checked on the spec by TLC; to_proto::range / from_proto::range on every pair of offsets must "
                          "agree with the two positions"}
    return v.finish("model_checking", cov, ["LSP's default UTF-16 position encoding"])


def features(text):
    f = []
    if any(c in ("b2", "b3", "LS") for c in text):
        f.append("multibyte")
    if "b4" in text:
        f.append("astral")
    if "CR" in text:
        f.append("CR")
    if "FF" in text or "LS" in text:
        f.append("FF/LS")
    if text and text[-1] in ("CR", "LF"):
        f.append("final-terminator")
    return "+".join(f) or "ascii"


def replay(prop, path):
    d = json.load(open(path))
    it = dict(d["replay"])
    it.update({"id": 0, "kind": "pos"})
    rec = common.run_one(it)
    bad = rec.get("outcome") != "Ok" or [list(x) for x in it["to"]] != rec["to"] or sorted(map(list, it["from"])) != sorted(x[:3] for x in rec["from"])
    print(json.dumps({"text": it["text"], "expected_to": it["to"], "got_to": rec.get("to"), "expected_from": sorted(map(list, it["from"])),
                      "got_from": sorted(rec.get("from", []))}, indent=None))
    if bad:
        print("VIOLATION property=%s replay=%s" % (prop, path))
        return 1
    return 0
