"""C14 lexical conformance against spec/Lexer.tla (reference lexer from the TableGen Programmer's Reference).
Generated token/separator sequences and the lines of the LLVM corpus are lexed by the real lexer; the recorded token
sequences are validated by TLC (LexTrace.tla): wherever the reference finds only valid tokens the real lexer must have
produced exactly those kinds and boundaries, with no lexical error."""
import itertools
import json
import os
import random
import re

import common
import gen
from common import log, Verdict, ToolError
from p_grammar import BANGS

KIND = {"Whitespace": "ws", "LineComment": "lc", "BlockComment": "bc", "Error": "err", "Id": "id", "IntVal": "int",
        "BinaryIntVal": "binint", "StrVal": "str", "CodeFragment": "code", "VarName": "var",
        "Minus": "p:-", "Plus": "p:+", "LSquare": "p:[", "RSquare": "p:]", "LBrace": "p:{", "RBrace": "p:}", "LParen": "p:(",
        "RParen": "p:)", "Less": "p:<", "Greater": "p:>", "Colon": "p::", "Semi": "p:;", "Comma": "p:,", "Dot": "p:.", "Equal": "p:=",
        "Question": "p:?", "Paste": "p:#", "DotDotDot": "p:...",
        "Ifdef": "pp:ifdef", "Ifndef": "pp:ifndef", "Else": "pp:else", "Endif": "pp:endif", "Define": "pp:define",
        "Assert": "kw:assert", "Bit": "kw:bit", "Bits": "kw:bits", "Class": "kw:class", "Code": "kw:code", "Dag": "kw:dag",
        "Def": "kw:def", "Defm": "kw:defm", "Defset": "kw:defset", "Defvar": "kw:defvar", "Dump": "kw:dump", "ElseKw": "kw:else",
        "Field": "kw:field", "Foreach": "kw:foreach", "If": "kw:if", "In": "kw:in", "Include": "kw:include", "Int": "kw:int",
        "Let": "kw:let", "List": "kw:list", "MultiClass": "kw:multiclass", "String": "kw:string", "Then": "kw:then",
        "TrueVal": "kw:true", "FalseVal": "kw:false", "XCond": "bang:cond", "XLog2": "bang:log2"}
for _n, _k in BANGS:
    KIND[_k] = "bang:" + _n


def spec_set(name):
    s = open(os.path.join(common.SPEC, "Lexer.tla")).read()
    a = s.index(name + " == {")
    b = s.index("}", a)
    return re.findall(r'"([^"]+)"', s[a:b])


def instances():
    kw = spec_set("Keyword")
    bang = spec_set("BangOp")
    ids = ["a", "Z", "_", "_a1", "foo_Bar9", "x" * 40, "0abc", "32Bit", "9_", "classy", "defx", "inty", "trueish", "NAME", "iff", "e", "b0", "x0b",
           "elsewhere", "endifMarker", "defined", "ifdefx", "ifndefy", "elsex", "8bit", "32bits", "2in", "16int", "1if", "8assert", "3class", "7def", "0let"]
    ints = ["0", "7", "42", "007", "+3", "-5", "-0", "0x0", "0xff", "0XDEADbeef".replace("0X", "0x"), "0x1F", "0b0", "0b101", "0b00011",
            "9223372036854775807", "9223372036854775808", "18446744073709551615", "-9223372036854775808", "0xFFFFFFFFFFFFFFFF",
            "0x8000000000000000", "0b1" + "0" * 63, "0b" + "1" * 64]

    strs = ['""', '"a"', '"a b"', '"\\\\"', '"\\""', '"x\\\\"', '"\\\\\\""', '"\\t\\n"', "\"it\\'s\"", '"// not a comment"', '"/* nor this */"',
            '"[{"', '"}]"', '"#ifdef"', '"é€"', '"a\\\\\\\\"', '"!add"']
    codes = ["[{}]", "[{ c }]", "[{ a; } b ]}]", "[{ \" }]", "[{ // }]", "[{ /* }]", "[{\n multi\n line }]", "[{ [{ nested? }]", "[{ é }]"]
    vars_ = ["$a", "$_x1", "$Foo_Bar", "$class"]
    punct = ["-", "+", "[", "]", "{", "}", "(", ")", "<", ">", ":", ";", ",", ".", "=", "?", "#", "..."]
    inst = []
    inst += [(w, "kw:" + w) for w in kw]
    inst += [("!" + w, "bang:" + w) for w in bang]
    inst += [(x, "id") for x in ids]
    inst += [(x, "binint" if x.startswith("0b") else "int") for x in ints]
    inst += [(x, "str") for x in strs] + [(x, "code") for x in codes] + [(x, "var") for x in vars_] + [(x, "p:" + x) for x in punct]
    return inst


SEPS = [" ", "\t", "\n", "\r\n", "  \t ", "//c\n", "// x */ y\n", "//\n", "/* c */", "/**/", "/***/", "/****/", "/* banner **/", "/* a /* b */ c */",
        "/* /* /* */ */ */", "/* * / **/", "/*\n*/", "/* // */", "/* \" */", " /* é */ ", "\n\n", "// é\r\n", "/*/ */", "/* [{ */"]


def sequences(tier, seed):
    rng = random.Random("%d/c14" % seed)
    inst = instances()
    quick = tier == "quick"
    out = []
    # every instance alone, between every pair of separators (incl. none at the ends)
    for lex, k in inst:
        out.append(("", [(lex, k)], [""]))
        for s1 in SEPS:
            out.append((s1, [(lex, k)], [rng.choice(SEPS + [""])]))
            out.append((rng.choice(SEPS + [""]), [(lex, k)], [s1]))
    # two tokens with NOTHING between them: the reference lexer (not this generator) says how the concatenation splits
    # ("#" + "elsewhere" is a paste and an identifier; "8" + "bit" is one identifier; "-" + "5" one number ...)
    glue = [i for i in inst if not i[1].startswith("kw:else")]
    hashes = [i for i in inst if i[0] == "#"]
    idents = [i for i in inst if i[1] == "id" or i[1].startswith("kw:")]
    for a in hashes:
        for b in idents:
            if b[0] not in ("else", "ifdef", "ifndef", "endif", "define"):
                out.append(("", [a, b], ["", " "]))
                out.append(("", [b, a, b], ["", "", "\n"]))
    for _ in range(3000 if quick else 60000):
        a, b = rng.choice(glue), rng.choice(glue)
        if a[0] == "#" and b[0] in ("else", "ifdef", "ifndef", "endif", "define"):
            continue
        out.append((rng.choice(["", " "]), [a, b], ["", rng.choice(["", "\n"])]))
    # two tokens with every separator between them (instances seeded), three tokens seeded
    n2 = 6000 if quick else 120000
    for _ in range(n2):
        a, b = rng.choice(inst), rng.choice(inst)
        out.append((rng.choice(["", " "]), [a, b], [rng.choice(SEPS), rng.choice(["", "\n"])]))
    if not quick:
        for a in inst:
            for b in inst[::3]:
                out.append(("", [a, b], [" ", ""]))
    for _ in range(6000 if quick else 150000):
        toks = [rng.choice(inst) for _ in range(rng.randrange(3, 9))]
        out.append((rng.choice(["", "\n"]), toks, [rng.choice(SEPS) for _ in toks[:-1]] + [rng.choice(["", "\n", " // end"])]))
    return out


def render(seq):
    lead, toks, seps = seq
    return lead + "".join(t[0] + s for t, s in zip(toks, seps))


def to_trace(i, text, rec):
    """real lexer tokens (byte offsets) -> canonical kinds, 1-based character positions"""
    b = text.encode("utf-8")
    # byte offset -> character index
    pos = {}
    n = 0
    for ci, ch in enumerate(text):
        pos[n] = ci
        n += len(ch.encode("utf-8"))
    pos[n] = len(text)
    toks = []
    nerr = 0
    for k, s, e, err in rec["toks"]:
        if err:
            nerr += 1
        toks.append([KIND.get(k, "?" + k), pos.get(s, -1) + 1, pos.get(e, -1) + 1])
    return {"id": i, "cps": list(text), "toks": toks, "nerr": nerr}


def judge(traces, wd, tag):
    verdicts = {}
    states = 0
    B = 20000
    for b in range(0, len(traces), B):
        path = os.path.join(wd, "lex-%s-%d.ndjson" % (tag, b))
        common.write_ndjson(path, traces[b:b + B])
        r = common.run_tlc("LexTrace.tla", os.path.join(common.SPEC, "LexTrace.cfg"), os.path.join(wd, "lt-%s-%d" % (tag, b)),
                           env={"TRACE": path}, workers=1, timeout=3600, heap="8g")
        common.tlc_must(r, "LexTrace")
        if r.distinct != len(traces[b:b + B]) + 1:
            raise ToolError("LexTrace consumed %d of %d records" % (r.distinct - 1, len(traces[b:b + B])))
        states += r.distinct
        for x in r.records:
            verdicts[x["id"]] = x
    return verdicts, states


def check_c14(tier, seed):
    v = Verdict("C14", tier, seed)
    wd = common.workdir("C14-%s" % tier)
    quick = tier == "quick"
    seqs = sequences(tier, seed)
    texts = [render(s) for s in seqs]
    # a sequence with two tokens glued together may be lexically invalid ("!eq" + "0let"): then it carries no expectation
    glued = {i for i, sq in enumerate(seqs) if "" in sq[2][:len(sq[1]) - 1]}
    # direction B on real-world data: lines of the corpus
    rng = random.Random("%d/c14lines" % seed)
    lines = []
    for _n, t in gen.corpus_files():
        lines += [l for l in t.split("\n") if l.strip()]
    lines = sorted(set(lines))
    rng.shuffle(lines)
    lines = lines[:(5000 if quick else 60000)]
    ngen = len(texts)
    texts += lines
    items = [{"id": i, "kind": "lex", "text": t} for i, t in enumerate(texts)]
    log("C14 %s: %d generated sequences, %d corpus lines" % (tier, ngen, len(lines)))
    recs, _ = common.run_harness(items, wd, "lex", timeout_ms=20000)
    traces = []
    for i, (t, rec) in enumerate(zip(texts, recs)):
        if rec.get("outcome") != "Ok":
            v.report("C14 lexer outcome=%s " % rec.get("outcome"), {"text": t}, {"text": t})
            continue
        traces.append(to_trace(i, t, rec))
    verdicts, states = judge(traces, wd, "all")
    noexp_gen = 0
    rejected = 0
    for i, x in verdicts.items():
        if x["verdict"] == "no-expectation":
            if i < ngen and i not in glued:
                noexp_gen += 1
                if noexp_gen <= 3:
                    log("generator/spec disagreement: the reference finds an invalid token in generated %r" % texts[i][:80])
            continue
        rejected += 1
        exp, got = x["expected"], x["got"]
        lexeme = texts[i][exp[1] - 1:exp[2] - 1] if exp[0] != "end" else ""
        cls = exp[0] if not exp[0].startswith(("kw:", "p:")) else exp[0].split(":")[0]
        what = "kind" if exp[1:] == got[1:] else "boundary"
        fp = "C14 %s-differs expected=%s got=%s" % (what, cls, got[0] if not got[0].startswith(("kw:", "p:")) else got[0].split(":")[0])
        if cls.startswith("bang:") or exp[0] in ("bc", "str", "int", "binint", "id"):
            fp += " lexeme=%s" % common.clip(shape(lexeme), 40)
        v.report(fp, {"text": texts[i][:200], "expected": exp, "got": got, "source": "generated" if i < ngen else "corpus-line"},
                 {"text": texts[i]})
    if noexp_gen:
        raise ToolError("%d generated sequences are not valid for the reference lexer (spec/generator bug)" % noexp_gen)
    cov = {"states": states, "transitions": states, "traces_validated_against_impl": len(traces),
           "samples": [texts[5], texts[ngen // 2], texts[ngen + 3]], "exhaustive": False,
           "token_instances": len(instances()), "separators": len(SEPS), "generated_sequences": ngen, "corpus_lines": len(lines),
           "corpus_lines_without_expectation(multi-line constructs)": sum(1 for i, x in verdicts.items() if i >= ngen and x["verdict"] == "no-expectation"),
           "rejected": rejected,
           "explanation": "Lexer.tla (operational reference lexer over characters) evaluated by TLC on every recorded token sequence; generated: every "
                          "token instance between every separator, seeded 2..8-token sequences; real data: lines of the vendored LLVM .td files"}
    return v.finish("model_checking", cov, ["kinds are compared through the table TokenKind debug name -> canonical kind",
                                             "64-bit range of integer literals is not modelled (TLC integers are 32-bit): instances stay within 64 bits"])


def shape(lexeme):
    """abstract a lexeme for fingerprints: keep operators/short words, squash long runs"""
    return re.sub(r"[0-9]{3,}", "N", re.sub(r"[A-Za-z_]{7,}", "W", lexeme))


def replay(prop, path):
    d = json.load(open(path))
    t = d["replay"]["text"]
    rec = common.run_one({"id": 0, "kind": "lex", "text": t})
    wd = common.workdir("replay-C14")
    verdicts, _ = judge([to_trace(0, t, rec)], wd, "one")
    print(json.dumps({"text": t, "real": rec.get("toks"), "verdict": verdicts.get(0, "accepted")}, indent=1, ensure_ascii=False)[:4000])
    if verdicts.get(0, {}).get("verdict") == "rejected":
        print("VIOLATION property=%s replay=%s" % (prop, path))
        return 1
    return 0
