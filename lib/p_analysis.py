"""C03 (analysis totality), C06 (definition/reference coherence), C17 (range validity): direction B.
Workspaces are generated here, analysed by the real AnalysisHost in child processes; every observation record
is judged by TLC against spec/Obs.tla (ObsTrace.tla)."""
import concurrent.futures
import json
import os

import common
import gen
import wsgen
import p_text
from common import log, Verdict, ToolError

WANT = {"C03": ["tot"], "C06": ["coh"], "C17": ["ranges"]}


def build_items(prop, tier, seed, wd):
    import p_grammar
    progs = p_grammar.generated_programs(tier, seed, 220 if tier == "quick" else 900)
    items = wsgen.workspaces(tier, seed, progs)
    # token mutants of the rich workspaces ("the states a user types through")
    tl = []
    seeds = []
    for name, files in wsgen.RICH.items():
        for path in sorted(files):
            seeds.append((files, path))
    recs, _ = common.run_harness([{"id": i, "kind": "parse", "text": f[p]} for i, (f, p) in enumerate(seeds)], wd, "tok")
    for (files, path), r in zip(seeds, recs):
        if r.get("outcome") == "Ok":
            tl.append((files, path, p_text.token_texts(r, files[path])))
    items += wsgen.mutant_workspaces(tier, seed, tl)
    items += wsgen.corpus_workspaces(tier)
    if prop == "C03":
        items += wsgen.hierarchy_skeletons(tier, seed)
    for i, it in enumerate(items):
        it["id"] = i
        it["want"] = WANT[prop]
        it["seed"] = seed * 1000003 + i
        if prop == "C06" and it["tag"] == "corpus":
            it["max_offsets"] = 60 if tier == "quick" else 600
    return items


def run_analysis_property(prop, tier, seed):
    v = Verdict(prop, tier, seed)
    wd = common.workdir("%s-%s" % (prop, tier))
    items = build_items(prop, tier, seed, wd)
    log("%s %s: %d workspaces" % (prop, tier, len(items)))
    send = [{k: val for k, val in it.items() if k != "tag"} for it in items]
    recs, _ = common.run_harness(send, wd, "ws", timeout_ms=120000)
    chunks, cur, vol = [], [], 0
    for r in recs:
        slim = {"id": r["id"], "outcome": r.get("outcome"), "fails": r.get("fails", []), "nq": r.get("nq", 0)}
        if prop == "C17":
            # the same range is reported again and again (the reference list of a popular symbol at every offset): once is enough
            slim["ranges"] = [list(x) for x in sorted(set(tuple(x) for x in r.get("ranges", [])))]
            r["ranges"] = slim["ranges"]
        if prop == "C06":
            slim["idents"] = r.get("idents", [])
        cur.append(slim)
        vol += 50 + 45 * len(slim.get("ranges", [])) + 40 * len(slim.get("idents", []))        # bytes of the ndjson line, roughly
        if vol > 12_000_000 or len(cur) >= 20000:
            chunks.append(cur)
            cur, vol = [], 0
    if cur:
        chunks.append(cur)
    rejects, states = [], 0

    def judge(ci):
        path = os.path.join(wd, "chunk%d.ndjson" % ci)
        common.write_ndjson(path, chunks[ci])
        r = common.run_tlc("ObsTrace.tla", os.path.join(common.SPEC, "ObsTrace.cfg"), os.path.join(wd, "tlc%d" % ci),
                           env={"TRACE": path, "PROP": prop}, workers=1, timeout=3600, heap="8g")
        common.tlc_must(r, "ObsTrace chunk %d" % ci)
        return r

    with concurrent.futures.ThreadPoolExecutor(max_workers=6) as ex:
        for r in ex.map(judge, range(len(chunks))):
            states += r.distinct
            rejects.extend(p_text.parse_rejects(r))
    if states != len(recs) + len(chunks):
        raise ToolError("TLC consumed %d records of %d" % (states - len(chunks), len(recs)))
    by_id = {r["id"]: r for r in recs}
    for rj in rejects:
        rid = rj["id"]
        rec, it = by_id[rid], items[rid]
        replay = {k: val for k, val in it.items()}
        if prop == "C03":
            if rec.get("outcome") != "Ok":
                fp = "C03 outcome=%s %s" % (rec.get("outcome"), common.clip(rec.get("status") or rec.get("msg") or "", 60))
                if it["tag"].startswith("rich-prefix") or it["tag"] in ("token-mutant",):
                    pass
                v.report(fp, {"tag": it["tag"], "record": {k: rec[k] for k in rec if k not in ("ranges", "idents")}}, replay)
            else:
                seen = set()
                for f in rec["fails"]:
                    import re
                    fp = "C03 query=%s panicked msg=%s" % (f["q"].rstrip("!"), common.clip(re.sub(r"\d+", "N", f["msg"]), 70))
                    if fp in seen:
                        continue
                    seen.add(fp)
                    v.report(fp, {"tag": it["tag"], "fail": f}, replay)
        elif prop == "C17":
            if rec.get("outcome") != "Ok":
                continue    # C03's business
            bad = [x for x in rec["ranges"] if not (x[1] >= 0 and 0 <= x[2] <= x[3] <= x[4] and x[5] and x[6])]
            for q in sorted(set(x[0] for x in bad)):
                ex = next(x for x in bad if x[0] == q)
                why = ("not-a-workspace-file" if ex[1] < 0 else "start>end" if ex[2] > ex[3] else "beyond-text" if ex[3] > ex[4]
                       else "not-on-char-boundary")
                v.report("C17 query=%s %s" % (q, why), {"tag": it["tag"], "example": ex, "ws": rec.get("ws")}, replay)
        elif prop == "C06":
            if rec.get("outcome") != "Ok":
                continue
            v.report("C06 clauses=%s" % ",".join(sorted(rj["clauses"])), {"tag": it["tag"], "ws": rec.get("ws")}, replay)
    ok = [r for r in recs if r.get("outcome") == "Ok"]
    hist = {}
    for it in items:
        hist[it["tag"]] = hist.get(it["tag"], 0) + 1
    if prop == "C03":
        nontriv = sum(1 for r in ok if r.get("nq", 0) >= 20)
        unit = "queries"
        total = sum(r.get("nq", 0) for r in ok)
    elif prop == "C17":
        nontriv = sum(1 for r in ok if len(r.get("ranges", [])) >= 5)
        unit = "ranges"
        total = sum(len(r.get("ranges", [])) for r in ok)
    else:
        nontriv = sum(1 for r in ok if len(r.get("idents", [])) >= 2)
        unit = "resolved identifier tokens"
        total = sum(len(r.get("idents", [])) for r in ok)
    if not v.violations and total == 0:
        raise ToolError("vacuous run: no %s observed" % unit)
    samples = []
    for i in (0, len(items) // 2, len(items) - 60):
        it = items[i]
        samples.append({"tag": it["tag"], "root": it["root"], "files": {p: t[:120] for p, t in list(it.get("files", {}).items())[:3]}})
    cov = {
        "evaluations": len(items), "distinct_nontrivial": nontriv,
        "rule": "workspaces (root + included files) from the listed families, each analysed by the real AnalysisHost/Analysis in a child "
                "process on a 2 MiB thread; non-trivial = analysed and yielded >= 20 queries (C03) / >= 5 ranges (C17) / >= 2 resolved "
                "identifiers (C06); every observation record judged by TLC (spec/ObsTrace.tla, property %s of spec/Obs.tla)" % prop,
        "samples": samples, "families": hist, "total_" + unit.replace(" ", "_"): total,
        "records_judged_by_tlc": states - len(chunks), "rejected_records": len(rejects),
        "not_ok_outcomes": len(recs) - len(ok),
    }
    return v, cov


def check_c03(tier, seed):
    v, cov = run_analysis_property("C03", tier, seed)
    return v.finish("exploration", cov, ["workspaces without include cycles", "stack of 2 MiB per analysis thread (tokio blocking pool default)"])


def check_c06(tier, seed):
    v, cov = run_analysis_property("C06", tier, seed)
    return v.finish("exploration", cov, ["harness projection: identifier token table of each file, interned texts"])


def check_c17(tier, seed):
    v, cov = run_analysis_property("C17", tier, seed)
    return v.finish("exploration", cov, ["harness projection: file lengths and char-boundary flags taken from the texts it supplied"])


def replay(prop, path):
    d = json.load(open(path))
    item = dict(d["replay"])
    item.pop("tag", None)
    rec = common.run_one(item)
    wd = common.workdir("replay-" + prop)
    p = os.path.join(wd, "one.ndjson")
    common.write_ndjson(p, [rec])
    r = common.run_tlc("ObsTrace.tla", os.path.join(common.SPEC, "ObsTrace.cfg"), wd, env={"TRACE": p, "PROP": prop})
    rj = p_text.parse_rejects(r)
    print(json.dumps({"root": item.get("root"), "files": item.get("files"), "outcome": rec.get("outcome"), "fails": rec.get("fails"),
                      "status": rec.get("status"), "rejected_clauses": [x["clauses"] for x in rj], "bad": [x.get("extra") for x in rj]},
                     indent=1, ensure_ascii=False)[:6000])
    if rj:
        print("VIOLATION property=%s replay=%s" % (prop, path))
        return 1
    return 0
