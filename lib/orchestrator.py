"""./check <Cxx> --tier quick|thorough [--replay path] | setup | selftest"""
import importlib
import json
import os
import sys
import traceback

import common
from common import ToolError, log

PROPS = {
    "C01": ("p_text", "check_c01"),
    "C02": ("p_text", "check_c02"),
    "C03": ("p_analysis", "check_c03"),
    "C04": ("p_grammar", "check_c04"),
    "C05": ("p_scope", "check_c05"),
    "C06": ("p_analysis", "check_c06"),
    "C07": ("p_workspace", "check_c07"),
    "C08": ("p_server", "check_c08"),
    "C09": ("p_loc", "check_c09"),
    "C10": ("p_pos", "check_c10"),
    "C11": ("p_server", "check_c11"),
    "C12": ("p_server", "check_c12"),
    "C13": ("p_types", "check_c13"),
    "C14": ("p_lexer", "check_c14"),
    "C15": ("p_preproc", "check_c15"),
    "C16": ("p_workspace", "check_c16"),
    "C17": ("p_analysis", "check_c17"),
    "C18": ("p_scope", "check_c18"),
    "C19": ("p_scope", "check_c19"),
    "C20": ("p_vocab", "check_c20"),
}


def usage():
    print("usage: ./check <C01..C20> [--tier quick|thorough] [--replay path] | setup | selftest", file=sys.stderr)
    return 2


def main(argv):
    if not argv:
        return usage()
    cmd = argv[0]
    tier = os.environ.get("VERIF_TIER", "quick")
    replay = None
    i = 1
    while i < len(argv):
        if argv[i] == "--tier" and i + 1 < len(argv):
            tier = argv[i + 1]
            i += 2
        elif argv[i] == "--replay" and i + 1 < len(argv):
            replay = argv[i + 1]
            i += 2
        else:
            return usage()
    if tier not in ("quick", "thorough"):
        return usage()
    seed = common.seed_from_env()
    try:
        if cmd == "setup":
            return setup()
        if cmd == "selftest":
            common.build_harness()
            import selftest
            return selftest.run()
        if cmd not in PROPS:
            print("unknown property / command: %s" % cmd, file=sys.stderr)
            return 2
        mod, fn = PROPS[cmd]
        m = importlib.import_module(mod)
        common.build_harness()
        if replay:
            return m.replay(cmd, replay)
        return getattr(m, fn)(tier, seed)
    except ToolError as e:
        print("TOOL-ERROR: %s" % e, file=sys.stderr)
        return 2
    except Exception:
        traceback.print_exc()
        return 2


def setup():
    """Fresh restore: build the harness offline, parse every spec with SANY, run the self-test."""
    common.build_harness()
    specs = sorted(f for f in os.listdir(common.SPEC) if f.endswith(".tla"))
    common.sany(specs)
    log("SANY ok: %d modules" % len(specs))
    import selftest
    return selftest.run()
