"""C13 diagnostics sound and complete on the supported core, driven by spec/Types.tla.
TLC decides every (slot, declared type, value) triple, every template-argument binding, every name slot and every operator
arity of the universe; this module assembles the decided statements into programs (prelude in lib.td, statements in
main.td and in an included part.td, each nested in one of the constructs of the core), runs Analysis::diagnostics() and
compares: a fault-free program has no diagnostic in any file; a program with exactly one seeded fault has a diagnostic that
meets the seeded site in the seeded file and none in a file the fault does not touch."""
import json
import os
import random
import re
import subprocess
import zlib

import common
from common import log, Verdict, ToolError

W = "/w"
TBLGEN14_MISSING = ("!listflatten", "!initialized", "!repr", "!range", "!tolower", "!toupper", "!getdagarg", "!getdagname", "!setdagarg",
                    "!setdagname", "!listremove", "!exists", "!div", "!logtwo", "assert ", "Base<>", "Mid<>", "Both<>", "Other<>", "Mixin<>")


def crc(s):
    return zlib.crc32(s.encode())


def universe(wd):
    r = common.run_tlc("Types.tla", os.path.join(common.SPEC, "Types.cfg"), os.path.join(wd, "tlc"), workers=1, timeout=900)
    common.tlc_must(r, "Types")
    u = {"triple": [], "slot": {}, "wrapper": [], "bind": [], "name": [], "arity": [], "opval": [], "shadow": [], "named": [], "prelude": None, "syntax": None}
    for rec in r.records:
        k = rec.get("kk") or rec["k"]
        if k == "slot":
            u["slot"][rec["s"]] = rec
        elif k in ("prelude", "syntax"):
            u[k] = rec
        else:
            u[k].append(rec)
    for k in ("triple", "bind", "name", "arity", "opval", "shadow", "named"):
        u[k].sort(key=lambda x: json.dumps(x, sort_keys=True))
    u["wrapper"].sort(key=lambda x: x["w"])
    if not u["prelude"] or not u["triple"] or not u["bind"]:
        raise ToolError("Types.tla emitted nothing")
    return u, r


class Stmt:
    """decl: top-level lines before the statement; pre + slot + post: the statement with the slot text marked; kind/fp: for reports"""

    def __init__(self, decl, pre, slot, post, kind, fault=None, where="slot"):
        self.decl, self.pre, self.slot, self.post, self.kind, self.fault, self.where = decl, pre, slot, post, kind, fault, where

    def head(self):
        return (self.pre + self.slot).split()[0]


def allowed_wrappers(st, wrappers):
    h = st.head()
    text = st.pre + st.slot + st.post
    if h == "class":
        ok = ("none", "letin")
    elif h in ("def", "defm", "let", "foreach", "if"):
        ok = tuple(w["w"] for w in wrappers)
    elif h == "defvar":
        ok = tuple(w["w"] for w in wrappers if w["w"] != "multiclass")
    else:
        ok = ("none",)
    return [w for w in wrappers if w["w"] in ok]


def statements(u):
    """-> (ok statements, fault statements)"""
    ok, bad = [], []
    for t in u["triple"]:
        sl = u["slot"][t["s"]]
        sub = lambda s: s.replace("@T", t["t"])
        kind = "typed slot=%s expected=%s value=%s:%s" % (t["s"], t["t"], t["vk"], t["vt"])
        if t["vk"].startswith("op:") or t["vk"] == "cond":
            kind += " text=" + t["v"].replace(" ", "")
        st = Stmt(sub(sl["decl"]), sub(sl["pre"]), t["v"], sub(sl["post"]), kind)
        if t["c"] == "yes":
            ok.append(st)
        elif t["c"] == "no":
            st.fault = "incompatible-type"
            bad.append(st)
    for b in u["bind"]:
        st = Stmt("", b["pre"], b["ref"], b["post"], "bind position=%s class=%s args=%d%s" % (b["p"], b["c"], b["n"], "" if b["angle"] else " no-brackets"))
        if b["verdict"] == "ok":
            ok.append(st)
        else:
            st.fault = b["verdict"] + "-template-argument"
            bad.append(st)
    for b in u["named"]:
        st = Stmt("", b["pre"], b["ref"], b["post"], "named-bind position=%s class=%s args=%s" % (b["p"], b["c"], b["args"].replace(" ", "")))
        if b["verdict"] == "ok":
            ok.append(st)
        else:
            st.fault = {"missing": "missing-template-argument", "type": "incompatible-type"}[b["verdict"]]
            bad.append(st)
    for n in u["name"]:
        ok.append(Stmt("", n["pre"], n["ok"], n["post"], "name slot=%s" % n["s"]))
        bad.append(Stmt("", n["pre"], n["bad"], n["post"], "name slot=%s" % n["s"], fault="undefined-" + n["s"].split(":")[0]))
    for sc in u["shadow"]:
        sub = lambda x: x.replace("@I", sc["inner"]).replace("@F", sc["field"]).replace("@L", sc["innerlit"])
        st = Stmt("defvar sh%% = %s;" % sc["outerlit"], sub(sc["pre"]), "sh%", sub(sc["post"]),
                  "shadow inner=%s outer=%s:%s inner-type=%s field=%s" % (sc["k"], "defvar", sc["outer"], sc["inner"], sc["field"]))
        if sc["c"] == "yes":
            ok.append(st)
        elif sc["c"] == "no":
            st.fault = "incompatible-type"
            bad.append(st)
    for o in u["opval"]:
        ok.append(Stmt("", "defvar X% = ", o["txt"], ";", "operator %s text=%s" % (o["vk"], o["txt"].replace(" ", ""))))
    for a in u["arity"]:
        bad.append(Stmt("", "defvar X% = ", a["txt"], ";", "arity op=%s operands=too-%s" % (a["op"], a["how"]), fault="operator-arity"))
    return ok, bad


TOKEN = re.compile(r'"(?:[^"\\]|\\.)*"|\[\{.*?\}\]|![a-z2]+|\$?[A-Za-z_0-9]+|\.\.\.|\s+|.', re.S)


def syntax_faults(st_text, syn, every):
    """st_text: one fault-free statement (already numbered, wrapped) -> [(text, offset of the fault, what)]"""
    toks = TOKEN.findall(st_text)
    out = []
    pos = 0
    spans = []
    for t in toks:
        spans.append((pos, t))
        pos += len(t)
    # a comma before '{' or '[' separates a value from what would otherwise be its bit or slice suffix: deleting it keeps the text valid
    nxt = {}
    for i, (p, t) in enumerate(spans):
        j = i + 1
        while j < len(spans) and spans[j][1].isspace():
            j += 1
        nxt[p] = spans[j][1] if j < len(spans) else ""
    prv, last = {}, ""
    for p, t in spans:
        prv[p] = last
        if not t.isspace():
            last = t
    # ... and two adjacent string literals are one string
    # ... and two adjacent integers are a range in a slice or bit selection under the liberal reading of Grammar.tla ("3 -1")
    keeps_valid = lambda p: (nxt[p][:1] in ("{", "[") or (prv[p][:1] == '"' and nxt[p][:1] == '"')
                             or (prv[p][:1].isdigit() and nxt[p][:1].isdigit()))
    dels = [(p, t) for p, t in spans if t in syn["deletable"] and not (t == "," and keeps_valid(p))]
    ins = [p for p, t in spans if not t.isspace() and p > 0]
    if not every:
        h = crc(st_text)
        dels = [dels[h % len(dels)]] if dels else []
        ins = [ins[(h >> 8) % len(ins)]] if ins else []
    for p, t in dels:
        out.append((st_text[:p] + " " * len(t) + st_text[p + len(t):], p, "delete '%s'" % t))
    closers = sorted(syn["insertable"])
    for i, p in enumerate(ins):
        c = closers[(crc(st_text) + i) % len(closers)]
        out.append((st_text[:p] + c + " " + st_text[p:], p, "insert '%s'" % c))
    return out


class Program:
    MODES = ("plain", "chain", "diamond")

    def __init__(self, prelude, mode="plain"):
        # plain: main includes lib and part; chain: main includes part, part includes lib;
        # diamond: main includes lib and part, part includes the (guarded) lib again
        self.mode = mode
        lib = "\n".join(prelude) + "\n"
        if mode == "diamond":
            lib = "#ifndef LIB_TD\n#define LIB_TD\n" + lib + "#endif\n"
        self.files = {"lib": lib, "part": "" if mode == "plain" else 'include "lib.td"\n',
                      "main": 'include "part.td"\n' if mode == "chain" else 'include "lib.td"\ninclude "part.td"\n'}
        self.spans = []          # (file, start, end, stmt, slot start, slot end)
        self.n = 0

    def add(self, f, st, wrapper, number, raw_override=None):
        num = lambda s: s.replace("%", str(number))
        text = self.files[f]
        if st.decl:
            text += num(st.decl) + "\n"
        start = len(text.encode())
        body = num(wrapper["pre"]) + num(st.pre)
        s0 = start + len(body.encode())
        slot = num(st.slot)
        full = body + slot + num(st.post) + num(wrapper["post"])
        if raw_override is not None:
            full = raw_override
        text += full + "\n"
        self.files[f] = text
        self.spans.append((f, start, start + len(full.encode()), st, s0, s0 + len(slot.encode())))
        return full, start

    def item(self, iid):
        files = {"%s/%s.td" % (W, f): t for f, t in self.files.items()}
        return {"id": iid, "kind": "idequery", "files": files, "root": W + "/main.td",
                "queries": [{"m": "diagnostics", "path": "%s/%s.td" % (W, f)} for f in ("main", "part", "lib")]}


def build_programs(u, tier, seed):
    rng = random.Random("%d/c13" % seed)
    quick = tier == "quick"
    ok, bad = statements(u)
    wrappers = u["wrapper"]
    none = next(w for w in wrappers if w["w"] == "none")
    counter = [0]

    def fresh():
        counter[0] += 1
        return counter[0]
    progs = []          # (Program, expectation)
    # ---- fault-free programs: every ok statement once per allowed wrapper (quick: one wrapper by rotation), 40 statements per program
    jobs = []
    for i, st in enumerate(ok):
        aw = allowed_wrappers(st, wrappers)
        if quick:
            jobs.append((st, aw[crc(st.kind + st.slot) % len(aw)]))
        else:
            jobs.extend((st, w) for w in aw)
    rng.shuffle(jobs)
    per = 40
    ok_texts = []
    for i in range(0, len(jobs), per):
        p = Program(u["prelude"]["lines"], Program.MODES[(i // per) % 3])
        for j, (st, w) in enumerate(jobs[i:i + per]):
            f = "part" if j % 3 == 0 else "main"
            full, _ = p.add(f, st, w, fresh())
            ok_texts.append((st, w, full))
        progs.append((p, {"fault": None}))
    nok = len(progs)
    # ---- one seeded fault per program, surrounded by fault-free statements, in main or in the included part
    plain = [Stmt("", "def F% : Base<", "1", ">;", "filler"), Stmt("", "class G% { int f = ", "1", "; }", "filler"),
             Stmt("", "defvar H% = ", "vInt", ";", "filler"), Stmt("", "def F% : Mid { let w = ", "0", "; }", "filler")]
    fillers = [(st, none) for st in plain]

    def fault_program(where, make):
        p = Program(u["prelude"]["lines"], rng.choice(Program.MODES))
        for f in ("part", "main"):
            for st, w in rng.sample(fillers, 2):
                p.add(f, st, w, fresh())
        info = make(p, where)
        for f in ("part", "main"):
            st, w = rng.choice(fillers)
            p.add(f, st, w, fresh())
        return p, info
    # quick: every fault once (wrapper and file chosen by a hash of the statement); thorough: under every admissible wrapper, in both files
    for st in bad:
        aw = allowed_wrappers(st, wrappers)
        if st.head() == "include":
            combos = [(none, "main")]
        elif quick:
            combos = [(aw[crc(st.kind + st.slot) % len(aw)], "part" if crc(st.slot + st.kind) % 2 else "main")]
        else:
            combos = [(w, f) for w in aw for f in ("main", "part")]
        for w, where in combos:
            def make(p, where, st=st, w=w):
                p.add(where, st, w, fresh())
                return {"fault": st.fault, "file": where, "span": len(p.spans) - 1, "kind": st.kind, "wrapper": w["w"]}
            progs.append(fault_program(where, make))
    # ---- syntax faults: a structural token deleted or a closer inserted in a fault-free statement, in main, part and lib
    syn_src = [x for x in ok_texts if "$" not in x[2] and "#" not in x[2]]
    rng.shuffle(syn_src)
    for k, (st, w, full) in enumerate(syn_src[:600 if quick else 6000]):
        n = fresh()
        base = (w["pre"] + st.pre + st.slot + st.post + w["post"]).replace("%", str(n))
        for text, off, what in syntax_faults(base, u["syntax"], every=not quick):
            where = ("main", "part", "lib")[crc(text) % 3]

            def make(p, where, st=st, w=w, text=text, off=off, what=what, n=n):
                _, start = p.add(where, st, w, n, raw_override=text)
                return {"fault": "syntax", "file": where, "span": len(p.spans) - 1, "kind": "syntax " + what.split()[0] + " token=" + what.split()[1],
                        "wrapper": w["w"], "at": start + off}
            progs.append(fault_program(where, make))
    return progs, nok, len(ok), len(bad)


TOUCHED = {"main": {"main"}, "part": {"part", "main"}, "lib": {"lib", "part", "main"}}


def norm_msg(m):
    m = re.sub(r"'[^']*'", "'_'", m)
    m = re.sub(r"\d+", "N", m)
    m = re.sub(r": .*$", "", m)
    return common.clip(m, 50)


def check_c13(tier, seed):
    v = Verdict("C13", tier, seed)
    wd = common.workdir("C13-%s" % tier)
    u, r = universe(wd)
    progs, nok, nok_st, nbad_st = build_programs(u, tier, seed)
    items = [p.item(i) for i, (p, _) in enumerate(progs)]
    recs, _ = common.run_harness(items, wd, "types", timeout_ms=30000)
    stats = {"fault_free_programs": nok, "fault_free_statements": nok_st, "seeded_fault_programs": len(progs) - nok, "faults_by_class": {},
             "site_covered_exactly": 0, "site_met": 0}
    samples = []
    for (p, exp), it, rec in zip(progs, items, recs):
        replay = {"files": it["files"], "expect": {k: x for k, x in exp.items()}, "includes": p.mode}
        if rec.get("outcome") != "Ok":
            v.report("C13 outcome=%s " % rec.get("outcome"), {"msg": rec.get("msg")}, replay)
            continue
        diags = {}
        for q, a in zip(it["queries"], rec["answers"]):
            f = q["path"].split("/")[-1][:-3]
            diags[f] = [d for d in (a or [])]
        # diagnostics are attributed to the file they point into
        byfile = {"main": [], "part": [], "lib": []}
        for f, ds in diags.items():
            for d in ds:
                df = d[0].split("/")[-1][:-3]
                byfile.setdefault(df, []).append(d)
        if exp["fault"] is None:
            for f, ds in byfile.items():
                for d in ds:
                    st = next((s for s in p.spans if s[0] == f and s[1] <= d[1] <= s[2]), None)
                    kind = st[3].kind if st else "prelude"
                    stmt = p.files[f].encode()[st[1]:st[2]].decode() if st else ""
                    v.report("C13 false-positive %s msg=%s" % (kind, norm_msg(d[3])), {"diagnostic": d, "statement": stmt}, replay)
            continue
        f, span = exp["file"], p.spans[exp["span"]]
        cls = exp["fault"]
        stats["faults_by_class"][cls] = stats["faults_by_class"].get(cls, 0) + 1
        stmt = p.files[f].encode()[span[1]:span[2]].decode()
        here = byfile.get(f, [])
        if cls == "syntax":
            met = [d for d in here if d[2] >= span[1]]
        else:
            s0, s1 = span[4], span[5]
            met = [d for d in here if d[1] <= s1 and d[2] >= s0]
            if any(d[1] <= s0 and s1 <= d[2] for d in met):
                stats["site_covered_exactly"] += 1
        if met:
            stats["site_met"] += 1
            if len(samples) < 6 and crc(stmt) % 50 == 0:
                samples.append({"fault": cls, "statement": stmt, "diagnostic": met[0][3]})
        else:
            v.report("C13 fault-not-reported fault=%s %s" % (cls, exp["kind"]),
                     {"statement": stmt, "file": f, "slot": stmt and p.files[f].encode()[span[4]:span[5]].decode(), "wrapper": exp["wrapper"],
                      "diagnostics_in_file": here[:4], "diagnostics_elsewhere": {g: ds[:3] for g, ds in byfile.items() if g != f and ds}}, replay)
        for g, ds in byfile.items():
            if g not in TOUCHED[f] and ds:
                v.report("C13 diagnostic-in-untouched-file fault=%s in=%s reported-in=%s" % (cls, f, g), {"diagnostics": ds[:4], "statement": stmt}, replay)
    if stats["site_met"] == 0 or nok == 0:
        raise ToolError("vacuous: no seeded fault was reported at all")
    audit = tblgen_audit(u, wd, tier, seed) if tier == "thorough" else None
    cov = {"states": r.distinct, "transitions": r.generated, "traces_validated_against_impl": len(progs), "exhaustive": tier == "thorough",
           "samples": samples[:5], "universe": {"decided_triples": len(u["triple"]), "binding_cases": len(u["bind"]), "name_slots": len(u["name"]),
                                               "operator_applications": len(u["opval"]), "arity_faults": len(u["arity"]), "fault_statements": nbad_st},
           **stats, "tblgen_audit": audit,
           "explanation": "Types.tla (cast relation, operator table, template-argument binding, name slots; laws checked by TLC) decides every statement; "
                          "fault-free statements are assembled 40 to a program, every fault gets its own program; quick takes every statement "
                          "under one wrapper, thorough under every admissible wrapper and in both files"}
    return v.finish("model_checking", cov, ["the reference typing rules are transcribed from the TableGen Programmer's Reference",
                                             "a diagnostic 'covers' the site when its range meets the seeded slot (syntax faults: lies at or after the seeded statement)"])


def tblgen_audit(u, wd, tier, seed, limit=None):
    """spec audit (not a verdict about the code): llvm-tblgen-14 accepts the fault-free statements and rejects the faulted ones.
    Statements that use operators or syntax newer than LLVM 14 are left out."""
    from concurrent.futures import ThreadPoolExecutor
    exe = "/usr/bin/llvm-tblgen-14"
    if not os.path.exists(exe):
        return {"available": False}
    ok, bad = statements(u)
    d = os.path.join(wd, "audit")
    os.makedirs(d, exist_ok=True)
    prelude = [l for l in u["prelude"]["lines"]]
    # (named template arguments came with LLVM 17)
    usable = lambda st: not st.kind.startswith("named-bind") and not any(m in (st.decl + st.pre + st.slot + st.post) for m in TBLGEN14_MISSING)
    none = {"pre": "", "post": ""}
    res = {"available": True, "accepted_ok": 0, "rejected_ok": [], "rejected_bad": 0, "accepted_bad": [], "left_out": 0}
    rng = random.Random(seed)
    oks = [s for s in ok if usable(s) and s.head() != "include"]
    bads = [s for s in bad if usable(s) and s.head() != "include"]
    res["left_out"] = len(ok) + len(bad) - len(oks) - len(bads)
    rng.shuffle(oks)
    rng.shuffle(bads)
    if limit:
        oks, bads = oks[:limit], bads[:limit]

    def run(arg):
        k, sts = arg
        p = Program(prelude)
        p.files["main"] = ""
        for i, st in enumerate(sts):
            p.add("main", st, none, 700000 + k * 1000 + i)
        path = os.path.join(d, "a%d.td" % k)
        open(path, "w").write(p.files["lib"] + p.files["main"])
        pr = subprocess.run([exe, path, "-o", "/dev/null"], capture_output=True, text=True, timeout=60)
        os.unlink(path)
        return pr.returncode == 0, pr.stderr
    with ThreadPoolExecutor(12) as ex:
        batches = [oks[i:i + 50] for i in range(0, len(oks), 50)]
        single = []
        for b, (good, err) in zip(batches, ex.map(run, list(enumerate(batches)))):
            if good:
                res["accepted_ok"] += len(b)
            else:
                single.extend(b)
        for st, (good, err) in zip(single, ex.map(run, [(10000 + i, [st]) for i, st in enumerate(single)])):
            if good:
                res["accepted_ok"] += 1
            elif len(res["rejected_ok"]) < 400:
                res["rejected_ok"].append({"kind": st.kind, "stmt": st.decl + " " + st.pre + st.slot + st.post, "err": next((l for l in err.split("\n") if "error:" in l), err[:100]).split("error:")[-1].strip()[:160]})
        for st, (good, err) in zip(bads, ex.map(run, [(20000 + i, [st]) for i, st in enumerate(bads)])):
            if not good:
                res["rejected_bad"] += 1
            elif len(res["accepted_bad"]) < 40:
                res["accepted_bad"].append({"kind": st.kind, "stmt": st.decl + " " + st.pre + st.slot + st.post})
    return res


def replay(prop, path):
    d = json.load(open(path))
    rp = d["replay"]
    item = {"id": 0, "kind": "idequery", "files": rp["files"], "root": W + "/main.td",
            "queries": [{"m": "diagnostics", "path": p} for p in sorted(rp["files"])]}
    rec = common.run_one(item)
    print(json.dumps({"fingerprint": d["fingerprint"], "detail": d["detail"], "expect": rp["expect"],
                      "diagnostics_now": dict(zip(sorted(rp["files"]), rec.get("answers", [])))}, indent=1)[:6000])
    fp = d["fingerprint"]
    now = [x for a in rec.get("answers", []) or [] for x in (a or [])]
    still = True
    if "false-positive" in fp:
        still = bool(now)
    elif "fault-not-reported" in fp:
        stmt = d["detail"].get("statement", "")
        f = "%s/%s.td" % (W, d["detail"].get("file", "main"))
        text = rp["files"][f].encode()
        s = text.find(stmt.encode())
        still = not any(x[0] == f and x[2] >= s and x[1] <= s + len(stmt.encode()) for x in now)
    if still:
        print("VIOLATION property=%s replay=%s" % (prop, path))
        return 1
    print("not reproduced on the current tree")
    return 0
