"""C20 completion vocabulary: tables extracted from the running code, closure invariants evaluated by TLC (spec/Vocab.tla)."""
import json
import os
import random

import common
from common import log, Verdict, ToolError
import p_lexer

STATEMENTS = {"assert": 'assert 1, "m";', "class": "class A;", "def": "def d;", "dump": "dump 1;", "foreach": "foreach i = [1] in def x;",
              "defm": "defm d : M;", "defset": "defset list<A> s = { }", "defvar": "defvar v = 1;", "if": "if 1 then def y;",
              "include": 'include "f.td"', "let": "let a = 1 in def z;", "multiclass": "multiclass M { def a; }"}
BANG_CONTEXTS = ["defvar x = !;", "defvar x = !add(1, 2);", "defvar x = !ad;", "defvar x = !foo(1);", "defvar x = !(1);", "defvar x = !size(l);",
                 "class C { int a = !; }", "def d : A<!cond(1: 2)>;", "defvar x = [!"]


def canon(k):
    base = k.split("+")[0]
    c = p_lexer.KIND.get(base, "?" + base)
    if "+rest" in k:
        return "partial:" + c
    return c


MORPHEMES = ["get", "set", "dag", "op", "arg", "name", "list", "str", "concat", "splat", "remove", "flatten", "to", "lower", "upper", "sub", "substr",
             "find", "fold", "foldl", "foldr", "l", "r", "for", "each", "foreach", "filter", "is", "a", "isa", "cast", "exists", "empty", "size", "head",
             "tail", "if", "cond", "eq", "ne", "lt", "le", "gt", "ge", "add", "mul", "div", "and", "or", "xor", "not", "shl", "sra", "srl", "log",
             "two", "2", "range", "interleave", "initialized", "repr", "con", "match", "instances", "sort", "len", "length", "concat", "st", "subst",
             "first", "last", "min", "max", "abs", "mod", "neg", "zip", "map", "nth", "at", "in", "contains", "starts", "ends", "with", "join", "split"]


def bang_candidates(ref):
    """candidate operator spellings: one to three morphemes, every reference name with one character dropped / doubled, known deprecated names"""
    out = set(["getop", "setop", "logtwo", "log2", "strconcat", "listconcat"])
    ms = sorted(set(MORPHEMES))
    for a in ms:
        out.add(a)
        for b in ms:
            out.add(a + b)
    core = ["get", "set", "dag", "op", "arg", "name", "list", "str", "concat", "to", "sub", "is", "log", "two", "2", "con", "fold", "l", "r", "for", "each"]
    for a in core:
        for b in core:
            for c in core:
                out.add(a + b + c)
    for w in ref:
        for i in range(len(w)):
            out.add(w[:i] + w[i + 1:])
            out.add(w[:i] + w[i] + w[i:])
        out.add(w + "s")
    return sorted(out)


def class_cases(seed, n):
    rng = random.Random("%d/c20" % seed)
    names = ["Inst", "Reg", "Base", "Pat", "Op", "X86", "A", "Zed"]
    cases = []
    for ci in range(n):
        k = rng.randrange(1, 6)
        cls = rng.sample(names, k)
        params = {c: rng.randrange(0, 4) for c in cls}
        main, lib = [], []
        for c in cls:
            tgt = lib if rng.random() < 0.3 else main
            if rng.random() < 0.4:
                (lib if rng.random() < 0.3 else main).append("class %s;" % c)           # forward declaration first
            # trailing parameters may have defaults: a literal, ?, or a value the indexer cannot type (a record made by a
            # foreach paste, R0 below): a parameter is a parameter whatever its default
            first_default = rng.randrange(params[c] + 1)
            dflt = lambda i: (" = " + rng.choice(["1", "?", "R0", "R3"])) if i >= first_default else ""
            ps = ", ".join("%s p%d%s" % (rng.choice(["int", "string", "bit", "list<int>"]), i, dflt(i)) for i in range(params[c]))
            body = rng.choice([";", " { int f = 1; }", " { }"])
            tgt.append("class %s%s%s" % (c, "<%s>" % ps if ps else "", body))
        rng.shuffle(main)
        # forward declarations must precede definitions within a file: stable re-sort keeping relative order of everything else
        def fix(lines):
            out = []
            for l in lines:
                out.append(l)
            seen = {}
            res = []
            for l in out:
                nm = l.split()[1].split("<")[0].rstrip(";")
                is_fwd = l.endswith(";") and "<" not in l and "{" not in l and l == "class %s;" % nm
                if is_fwd and nm in seen:
                    continue            # a forward declaration after the definition would redefine the class without parameters
                if not is_fwd:
                    seen[nm] = True
                res.append(l)
            return res
        main = fix(main)
        if lib:
            lib = fix(lib)
        # the definition must be the LAST declaration of each class in indexing order (lib is included first)
        order = ([l for l in lib] if lib else []) + main
        last = {}
        for l in order:
            nm = l.split()[1].split("<")[0].rstrip(";")
            last[nm] = l
        if any(l == "class %s;" % nm and params[nm] > 0 for nm, l in last.items()):
            continue
        pos_kind = rng.choice(["class Q : %s", "def q : %s", "def q : Zq<1>, %s", "multiclass MM : %s", "class Q<int z> : %s"])
        partial = rng.choice(["", "I", "Reg", "B"])
        if not partial:
            partial = "Z"
        stmt = pos_kind % partial
        text = ('include "lib.td"\n' if lib else "") + "foreach i = 0...3 in def R#i;\n" + "\n".join(main) + "\n" + stmt
        off = len(text.encode())
        if stmt.startswith("multiclass"):
            text += rng.choice([" { def x; }", " { def x; }\nclass After;"])
        else:
            text += rng.choice([";", " { }", ";\nclass After;"])
        if "class After;" in text:
            params["After"] = 0
        files = {"/w/main.td": text}
        if lib:
            files["/w/lib.td"] = "\n".join(lib) + "\n"
        declared = sorted([c, params[c]] for c in params)
        if "class Q" in stmt:
            declared.append(["Q", 1 if "<int z>" in stmt else 0])
            declared.sort()
        cases.append({"files": files, "root": "/w/main.td", "path": "/w/main.td", "offset": off, "prog": ci, "pos": stmt,
                      "declared": declared, "classes": sorted(x[0] for x in declared)})
    return cases


def check_c20(tier, seed):
    v = Verdict("C20", tier, seed)
    wd = common.workdir("C20-%s" % tier)
    quick = tier == "quick"
    ref_bang = p_lexer.spec_set("BangOp")
    ref_kw = p_lexer.spec_set("Keyword")
    cases = class_cases(seed, 150 if quick else 3000)
    item = {"id": 0, "kind": "vocab",
            "bang_contexts": [[c, c.index("!") + 1] for c in BANG_CONTEXTS],
            "keyword_ctx": ["cl", 2], "type_ctx": ["class A<i", 9], "value_ctx": ["defvar x = t", 12],
            "words": ref_kw, "bang_words": ref_bang, "bang_candidates": bang_candidates(ref_bang), "statements": STATEMENTS,
            "class_cases": [{k: c[k] for k in ("files", "root", "path", "offset")} for c in cases]}
    recs, _ = common.run_harness([item], wd, "vocab", timeout_ms=120000)
    rec = recs[0]
    if rec.get("outcome") != "Ok":
        v.report("C20 outcome=%s " % rec.get("outcome"), {"rec": rec}, {"item": item})
        return v.finish("model_checking", {"states": 1, "transitions": 1, "traces_validated_against_impl": 1, "samples": [rec]}, [])
    lexer_ops = sorted(w[1:] for w, k in rec["lex"].items() if w.startswith("!") and canon(k).startswith("bang:"))
    obs = {"id": 0, "bangCtx": rec["bangCtx"], "offered": rec["offered"], "lex": {w: canon(k) for w, k in rec["lex"].items()}, "lexerOps": lexer_ops,
           "parses": rec["parses"], "classCases": []}
    for c, got in zip(cases, rec["classCases"]):
        obs["classCases"].append({"prog": c["prog"], "pos": c["pos"], "labels": sorted(x[0] for x in got["offered"]), "classes": c["classes"],
                                  "offered": [[x[0], x[1]] for x in got["offered"]], "declared": c["declared"]})
    path = os.path.join(wd, "vocab.ndjson")
    common.write_ndjson(path, [obs])
    r = common.run_tlc("Vocab.tla", os.path.join(common.SPEC, "Vocab.cfg"), os.path.join(wd, "tlc"), env={"TRACE": path}, workers=1, timeout=1800)
    common.tlc_must(r, "Vocab")
    findings = r.records[0]["findings"]
    for kind, a, b in findings:
        if kind in ("offered-operator-not-lexed-as-operator", "lexer-operator-not-offered"):
            fp = "C20 %s op=%s" % (kind, a)
            detail = {"context": b, "lexer_says": obs["lex"].get("!" + a)}
        elif kind.startswith("offered-"):
            fp = "C20 %s word=%s" % (kind, a)
            detail = {"lexer_says": obs["lex"].get(a), "parses": obs["parses"].get(a)}
        else:
            case = next(c for c in obs["classCases"] if c["prog"] == a)
            fp = "C20 %s" % kind
            detail = {"case": case, "files": cases[[c["prog"] for c in cases].index(a)]["files"]}
        v.report(fp, detail, {"item": item, "finding": [kind, a, b]})
    if not obs["bangCtx"][0]["offered"] or not obs["offered"]["keywords"] or not obs["offered"]["types"]:
        raise ToolError("vacuous: a completion context offered nothing: %s" % {k: len(x) for k, x in obs["offered"].items()})
    cov = {"states": r.distinct, "transitions": r.generated, "traces_validated_against_impl": 1, "exhaustive": True,
           "samples": [{"bang_context": obs["bangCtx"][0]["ctx"], "offered": obs["bangCtx"][0]["offered"][:8]}, obs["classCases"][0]],
           "bang_contexts": len(BANG_CONTEXTS), "operators_in_reference_table": len(ref_bang), "operators_offered": len(obs["bangCtx"][0]["offered"]),
           "candidate_spellings_probed": len(item["bang_candidates"]), "operators_the_lexer_accepts": len(lexer_ops),
           "keywords_offered": len(obs["offered"]["keywords"]), "types_offered": len(obs["offered"]["types"]),
           "class_completion_cases": len(cases), "closure_findings": len(findings),
           "explanation": "the finite vocabularies are extracted from the running code (completion responses in every context, lexer verdict per "
                          "word, parser verdict per minimal statement) and the closure invariants of Vocab.tla are evaluated by TLC; class "
                          "completion over seeded programs with forward declarations, includes and every parent-class position"}
    return v.finish("model_checking", cov, ["minimal statements per keyword are mine", "the reference operator table is Lexer.tla's BangOp"])


def replay(prop, path):
    d = json.load(open(path))
    print(json.dumps({"finding": d["replay"]["finding"], "detail": d["detail"]}, indent=1)[:3000])
    print("re-run ./check C20 to re-extract the tables from the current tree")
    print("VIOLATION property=%s replay=%s" % (prop, path))
    return 1
