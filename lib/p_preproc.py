"""C15 preprocessor: model checking (Preproc.tla: Impl refines Ref on every well-nested sequence up to the bound) and
direction A (every enumerated sequence replayed on the real parser/analysis and compared with the reference verdict)."""
import json
import os
import random

import common
from common import log, Verdict, ToolError

RENDER = {"defX": "#define X", "defY": "#define Y", "ifdefX": "#ifdef X", "ifdefY": "#ifdef Y", "ifndefX": "#ifndef X",
          "ifndefY": "#ifndef Y", "else": "#else", "endif": "#endif", "ifdef_": "#ifdef", "define_": "#define"}
# garbage for disabled regions; nothing that lexically swallows the following lines ("[{" and "/*" without their closers
# would: whether a directive inside them still counts is an ambiguity zone)
GARBAGE = ['"unterminated', "!nosuchop (", "}} ]] >>", "def broken : ;", "[{ closed }] [", "/* closed */ */", "class G : G;", ".. 0b2 $",
           "include \"nofile.td\"", "def t1 : Undefined;"]


def render(b, rng, garbage):
    """garbage: False | True (random kinds) | int k (garbage kind k at every disabled position)"""
    # layout decisions depend on the arrangement only, so that the variants of one arrangement differ in the garbage alone
    lay = random.Random(json.dumps(b["input"]))
    lines = []
    for i, s in enumerate(b["input"], 1):
        g = rng.random()
        if garbage is not False and not b["on"][i - 1] and (garbage is not True or g < 0.6):
            lines.append(rng.choice(GARBAGE) if garbage is True else GARBAGE[garbage % len(GARBAGE)])
        lines.append("def t%d;" % i if s == "tok" else RENDER[s])
        if lay.random() < 0.2:
            lines.append("// comment")
    sep = "\r\n" if lay.random() < 0.2 else "\n"
    return sep.join(lines) + (sep if lay.random() < 0.8 else "")


def tlc_enumerate(maxlen, emit_above, wd, tag, seqs=None):
    cfg = ("SPECIFICATION Spec\nCONSTANTS\n  MaxLen = %d\n  EmitAbove = %d\nINVARIANT Refines\nINVARIANT NamelessAgreed\nINVARIANT Emit\n"
           "CHECK_DEADLOCK FALSE\n" % (maxlen, emit_above))
    env = {"SEQS": ""}
    if seqs is not None:
        p = os.path.join(wd, "seqs-%s.json" % tag)
        json.dump(seqs, open(p, "w"))
        env["SEQS"] = p
    r = common.run_tlc("Preproc.tla", cfg, os.path.join(wd, "pp-" + tag), workers=8, timeout=3600, env=env)
    common.tlc_must(r, "Preproc " + tag)
    return r


def check_c15(tier, seed):
    v = Verdict("C15", tier, seed)
    wd = common.workdir("C15-%s" % tier)
    quick = tier == "quick"
    # model checking: the design refines the reference on every well-nested sequence
    mc = tlc_enumerate(6 if quick else 7, 99, wd, "mc")
    # replay: every sequence up to the replay bound
    rb = 4 if quick else 5
    en = tlc_enumerate(rb, 0, wd, "emit")
    behaviours = sorted(en.records, key=lambda b: json.dumps(b["input"]))
    rng = random.Random("%d/c15" % seed)
    # deeper nestings: seeded sequences of length 5..10, biased to stay nested; TLC supplies the verdict as for the others
    syms = ["defX", "defY", "ifdefX", "ifdefY", "ifndefX", "ifndefY", "else", "endif", "tok", "tok"]
    deep = []
    for _ in range(2500 if quick else 40000):
        n, depth, seq = rng.randrange(5, 11), 0, []
        for _k in range(n):
            s = rng.choice(syms if depth else [x for x in syms if x not in ("else", "endif")] + ["endif"] * (rng.random() < 0.05))
            if s.startswith("if"):
                depth += 1
            elif s == "endif":
                depth = max(0, depth - 1)
            seq.append(s)
        seq += ["endif"] * (depth if rng.random() < 0.85 else 0)
        deep.append(seq)
    dp = tlc_enumerate(1, 0, wd, "deep", deep)
    nshort = len(behaviours)
    behaviours += sorted(dp.records, key=lambda b: json.dumps(b["input"]))
    # deeper nestings, seeded: random well-formed-ish sequences of length 6..14 get their verdict from TLC too? no: keep to enumerated
    items, meta = [], []
    for bi, b in enumerate(behaviours):
        if bi < nshort and len(b["input"]) < rb:
            variants = [False] + list(range(len(GARBAGE)))          # every garbage kind at every disabled position
        elif quick:
            variants = [False, True]
        else:
            variants = [False, True, True]
        for garbage in variants:
            if garbage is not False and all(b["on"]):
                continue
            items.append({"id": len(items), "kind": "pp", "text": render(b, rng, garbage)})
            meta.append((b, garbage))
    log("C15 %s: %d sequences enumerated, %d replays" % (tier, len(behaviours), len(items)))
    recs, _ = common.run_harness(items, wd, "pp", timeout_ms=20000)
    n_wn = n_unterm = n_nameless = n_meta = 0
    # metamorphic clause: text inside disabled regions produces neither declarations nor diagnostics, so garbage placed there
    # changes nothing observable (tokens, outline, error messages, diagnostics) w.r.t. the same arrangement without it
    plain = {}
    for (b, garbage), rec in zip(meta, recs):
        if garbage is False:
            plain[json.dumps(b["input"])] = rec
    for (b, garbage), rec, it in zip(meta, recs, items):
        if garbage is False or not b["wellnested"] or rec.get("outcome") != "Ok":
            continue
        inp = b["input"]
        firstn = next((i for i, s_ in enumerate(inp) if s_ in ("ifdef_", "define_")), len(inp))
        if any(not b["on"][i] for i in range(firstn, len(inp))) and firstn < len(inp):
            continue        # garbage after the first nameless directive: no expectation
        base = plain.get(json.dumps(inp))
        if not base or base.get("outcome") != "Ok":
            continue
        n_meta += 1
        for key in ("toks", "outline", "errs", "diags"):
            if rec[key] != base[key]:
                v.report("C15 disabled-text-observable field=%s" % key, {"input": inp, "with_garbage": rec[key][:6], "without": base[key][:6]},
                         {"input": inp, "text": it["text"], "garbage": garbage})
                break
    for (b, garbage), rec, it in zip(meta, recs, items):
        replay = {"input": b["input"], "text": it["text"], "garbage": garbage}
        if rec.get("outcome") != "Ok":
            v.report("C15 outcome=%s" % rec.get("outcome"), {"rec": rec}, replay)
            continue
        if not b["wellnested"]:
            continue                      # no expectation (still exercised: no panic)
        if b["nameless"]:
            if b["namelessErr"]:
                n_nameless += 1
                if not rec["errs"]:
                    v.report("C15 nameless-directive-not-reported", {"input": b["input"]}, replay)
                elif not any("expected macro name" in m for m in rec["errs"]):
                    v.report("C15 nameless-directive-reported-with-foreign-message", {"errs": rec["errs"][:3]}, replay)
            continue
        n_wn += 1
        expect_toks = []
        for i in b["out"]:
            expect_toks += ["def", "t%d" % i, ";"]
        expect_outline = ["t%d" % i for i in b["out"]]
        if rec["toks"] != expect_toks:
            k = next((j for j, (x, y) in enumerate(zip(rec["toks"], expect_toks)) if x != y), min(len(rec["toks"]), len(expect_toks)))
            kind = "disabled-token-delivered" if len(rec["toks"]) > len(expect_toks) or (k < len(rec["toks"]) and rec["toks"][k] not in expect_toks) else "enabled-token-missing"
            v.report("C15 tokens-differ %s nesting-depth=%d has-else=%s" % (kind, depth_of(b["input"]), "else" in b["input"]),
                     {"input": b["input"], "expected": expect_toks, "got": rec["toks"]}, replay)
            continue
        if rec["outline"] != expect_outline:
            v.report("C15 outline-differs", {"input": b["input"], "expected": expect_outline, "got": rec["outline"]}, replay)
            continue
        if b["unterminated"]:
            n_unterm += 1
            if not rec["errs"]:
                v.report("C15 unterminated-conditional-not-reported region=%s" % ("disabled" if not b["on"][-1] or not last_on(b) else "enabled"),
                         {"input": b["input"]}, replay)
        else:
            if rec["errs"]:
                v.report("C15 error-on-wellformed-input msg=%s" % common.clip(rec["errs"][0], 60), {"input": b["input"], "errs": rec["errs"]}, replay)
            elif rec["diags"]:
                v.report("C15 diagnostic-from-disabled-text msg=%s" % common.clip(rec["diags"][0], 60), {"input": b["input"], "diags": rec["diags"]}, replay)
    if not v.violations and (n_wn < 100 or n_unterm < 10 or n_nameless < 10):
        raise ToolError("vacuous: %d well-nested, %d unterminated, %d nameless" % (n_wn, n_unterm, n_nameless))
    cov = {"states": mc.distinct + en.distinct + dp.distinct, "transitions": mc.generated + en.generated + dp.generated, "traces_validated_against_impl": len(items),
           "samples": [meta[5][0], meta[len(meta) // 2][0], meta[-1][0]], "exhaustive": True,
           "refinement_checked_up_to_length": 6 if quick else 7, "sequences_model_checked": mc.distinct,
           "replayed_up_to_length": rb, "sequences_replayed": len(behaviours), "replays_with_garbage_in_disabled_text": sum(1 for _b, g in meta if g is not False),
           "deeper_seeded_sequences": len(dp.records),
           "well_nested_compared": n_wn, "garbage_variants_compared_with_plain": n_meta, "unterminated": n_unterm, "nameless_in_enabled_text": n_nameless,
           "explanation": "Preproc.tla: TLC checks Impl (skip loop with depth counter) refines Ref (frame stack) on every well-nested sequence over "
                          "{define X|Y, ifdef X|Y, ifndef X|Y, else, endif, token, nameless ifdef/define}; every sequence up to the replay bound is "
                          "rendered (also with garbage inside disabled regions) and parsed + indexed by the real code"}
    return v.finish("model_checking", cov, ["LLVM's conditional semantics as reference; nameless directives inside disabled text and everything after "
                                             "the first error carry no expectation"])


def depth_of(inp):
    d = m = 0
    for s in inp:
        if s.startswith("if"):
            d += 1
            m = max(m, d)
        elif s == "endif":
            d -= 1
    return m


def last_on(b):
    return all(b["on"]) if b["on"] else True


def replay(prop, path):
    d = json.load(open(path))
    r = d["replay"]
    rec = common.run_one({"id": 0, "kind": "pp", "text": r["text"]})
    print(json.dumps({"input": r["input"], "text": r["text"], "observed": rec, "fingerprint": d["fingerprint"]}, indent=1))
    print("(re-run ./check C15 to have the reference verdict recomputed by TLC)")
    print("VIOLATION property=%s replay=%s" % (prop, path))
    return 1
