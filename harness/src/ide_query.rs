//! C09: the ide-level (byte range) answers to a list of queries on a workspace, in the same order
//! and shape in which the server serialises them, so that the orchestrator can pair both.

use std::collections::BTreeMap;

use ide::file_system::{FileId, FilePosition, FileRange};
use ide::handlers::document_symbol::DocumentSymbol;
use serde_json::{json, Value};
use syntax::parser::{TextRange, TextSize};

use crate::memfs::Ws;
use crate::util::{guarded, jarr, jstr, on_thread, ANALYSIS_STACK};

fn flat(s: &DocumentSymbol, out: &mut Vec<Value>, p: &str) {
    out.push(json!([p, u32::from(s.range.start()), u32::from(s.range.end()), s.name.to_string(), format!("{:?}", s.kind), s.typ.to_string(),
                    s.children.len()]));
    for c in &s.children {
        flat(c, out, p);
    }
}

/// item: {id, files: {abs path: text}, root, queries: [{m, path, off?}]} -> {answers: [[ [path, s, e, extra?]... ] | null]}
pub fn idequery_item(item: &Value) -> Value {
    let id = item.get("id").cloned().unwrap_or(Value::Null);
    let item = item.clone();
    std::env::remove_var("INCLUDE_DIR");
    let r = on_thread(ANALYSIS_STACK, move || {
        let files: BTreeMap<String, String> = crate::ws_obs::files_of(&item);
        let ws = Ws::open(&files, jstr(&item, "root"));
        let a = ws.analysis();
        let path = |f: FileId| ws.fs.path_of(f).unwrap_or_default();
        let fr = |r: FileRange| json!([path(r.file), u32::from(r.range.start()), u32::from(r.range.end())]);
        let mut answers = Vec::new();
        for q in jarr(&item, "queries") {
            let p = jstr(q, "path");
            let Some(fid) = ws.fs.id_of(p) else {
                answers.push(Value::Null);
                continue;
            };
            let off = q.get("off").and_then(|x| x.as_u64()).unwrap_or(0) as u32;
            let pos = FilePosition::new(fid, TextSize::from(off));
            let ans: Value = match jstr(q, "m") {
                "definition" => guarded(|| a.goto_definition(pos)).ok().flatten().map(|r| json!([fr(r)])).unwrap_or(Value::Null),
                "references" => guarded(|| a.references(pos)).ok().flatten().map(|v| json!(v.into_iter().map(fr).collect::<Vec<_>>())).unwrap_or(Value::Null),
                "documentSymbol" => guarded(|| a.document_symbol(fid))
                    .ok()
                    .flatten()
                    .map(|v| {
                        let mut out = Vec::new();
                        for s in &v {
                            flat(s, &mut out, p);
                        }
                        json!(out)
                    })
                    .unwrap_or(Value::Null),
                "foldingRange" => guarded(|| a.folding_range(fid))
                    .ok()
                    .flatten()
                    .map(|v| json!(v.iter().map(|f| json!([p, u32::from(f.range.start()), u32::from(f.range.end())])).collect::<Vec<_>>()))
                    .unwrap_or(Value::Null),
                "documentLink" => guarded(|| a.document_link(fid))
                    .ok()
                    .flatten()
                    .map(|v| json!(v.iter().map(|l| json!([p, u32::from(l.range.start()), u32::from(l.range.end()), path(l.target)])).collect::<Vec<_>>()))
                    .unwrap_or(Value::Null),
                "hover" => guarded(|| a.hover(pos)).ok().flatten().map(|h| json!([h.signature, h.document])).unwrap_or(Value::Null),
                "inlayHint" => {
                    let len = files.get(p).map(|t| t.len()).unwrap_or(0) as u32;
                    let (rs, re) = match q.get("range").and_then(|r| r.as_array()) {
                        Some(r) => (r[0].as_u64().unwrap_or(0) as u32, r[1].as_u64().unwrap_or(0) as u32),
                        None => (0, len),
                    };
                    let range = FileRange::new(fid, TextRange::new(rs.into(), re.into()));
                    guarded(|| a.inlay_hint(range))
                        .ok()
                        .flatten()
                        .map(|v| json!(v.iter().map(|h| json!([p, u32::from(h.position), u32::from(h.position), h.label])).collect::<Vec<_>>()))
                        .unwrap_or(Value::Null)
                }
                "diagnostics" => guarded(|| a.diagnostics())
                    .ok()
                    .and_then(|m| m.get(&fid).cloned())
                    .map(|v| json!(v.iter().map(|d| json!([path(d.location.file), u32::from(d.location.range.start()), u32::from(d.location.range.end()), d.message])).collect::<Vec<_>>()))
                    .unwrap_or(Value::Null),
                _ => Value::Null,
            };
            answers.push(ans);
        }
        json!({"outcome": "Ok", "answers": answers})
    });
    match r {
        Ok(mut v) => {
            v["id"] = id;
            v
        }
        Err(msg) => json!({"id": id, "outcome": "Panic", "msg": msg}),
    }
}
