//! Observation of the ide-level analysis over a whole workspace: every query the property
//! lists, every range of every result, definition/reference facts per identifier token.
//! The harness only projects; the invariants live in spec/Obs.tla and TLC evaluates them.

use std::collections::{BTreeMap, HashMap};

use ide::analysis::Analysis;
use ide::file_system::{FileId, FilePosition, FileRange};
use ide::handlers::document_symbol::DocumentSymbol;
use serde_json::{json, Value};
use syntax::parser::{TextRange, TextSize};
use syntax::syntax_kind::SyntaxKind;

use crate::memfs::Ws;
use crate::util::{guarded, jstr, on_thread, Rng, ANALYSIS_STACK};

pub fn files_of(item: &Value) -> BTreeMap<String, String> {
    let mut m = BTreeMap::new();
    if let Some(dir) = item.get("files_dir").and_then(|d| d.as_str()) {
        fn walk(d: &std::path::Path, m: &mut BTreeMap<String, String>) {
            if let Ok(rd) = std::fs::read_dir(d) {
                for e in rd.flatten() {
                    let p = e.path();
                    if p.is_dir() {
                        walk(&p, m);
                    } else if p.extension().map(|x| x == "td").unwrap_or(false) {
                        if let Ok(t) = std::fs::read_to_string(&p) {
                            m.insert(p.to_string_lossy().to_string(), t);
                        }
                    }
                }
            }
        }
        walk(std::path::Path::new(dir), &mut m);
    }
    if let Some(o) = item.get("files").and_then(|f| f.as_object()) {
        for (k, v) in o {
            m.insert(k.clone(), v.as_str().unwrap_or("").to_string());
        }
    }
    m
}

pub struct FileInfo {
    pub id: FileId,
    pub path: String,
    pub text: String,
    /// identifier tokens (kind Id): (start, end)
    pub idents: Vec<(usize, usize)>,
    /// all token boundaries
    pub bounds: Vec<usize>,
}

pub fn tokens_of(text: &str) -> (Vec<(usize, usize)>, Vec<usize>) {
    let p = syntax::parse(text);
    let mut idents = Vec::new();
    let mut bounds = vec![0usize];
    for el in p.syntax_node().descendants_with_tokens() {
        if let Some(t) = el.into_token() {
            let s: usize = t.text_range().start().into();
            let e: usize = t.text_range().end().into();
            if t.kind() == SyntaxKind::Id {
                idents.push((s, e));
            }
            if bounds.last() != Some(&e) {
                bounds.push(e);
            }
        }
    }
    (idents, bounds)
}

fn pos(file: FileId, off: usize) -> FilePosition {
    FilePosition::new(file, TextSize::from(off as u32))
}
fn frange(file: FileId, s: usize, e: usize) -> FileRange {
    FileRange::new(file, TextRange::new(TextSize::from(s as u32), TextSize::from(e as u32)))
}
fn se(r: TextRange) -> (usize, usize) {
    (r.start().into(), r.end().into())
}

struct Ctx<'a> {
    files: &'a [FileInfo],
    by_id: HashMap<FileId, usize>,
    ranges: Vec<Value>,
    fails: Vec<Value>,
    nq: u64,
    want_ranges: bool,
}

impl<'a> Ctx<'a> {
    /// one range fact: [query, fileIndex (-1 = not a workspace file), s, e, len, sBoundary, eBoundary]
    fn range(&mut self, q: &str, file: FileId, s: usize, e: usize) {
        if !self.want_ranges {
            return;
        }
        match self.by_id.get(&file) {
            Some(&i) => {
                let t = &self.files[i].text;
                let sb = s <= t.len() && t.is_char_boundary(s);
                let eb = e <= t.len() && t.is_char_boundary(e);
                self.ranges.push(json!([q, i as i64, s, e, t.len(), sb, eb]));
            }
            None => self.ranges.push(json!([q, -1, s, e, 0, false, false])),
        }
    }
    fn call<T>(&mut self, q: &str, file: usize, arg: Value, f: impl FnOnce() -> T) -> Option<T> {
        self.nq += 1;
        match guarded(f) {
            Ok(v) => Some(v),
            Err(msg) => {
                if self.fails.len() < 50 {
                    self.fails.push(json!({"q": q, "file": self.files[file].path, "arg": arg, "msg": msg}));
                }
                None
            }
        }
    }
    fn symbols(&mut self, q: &str, file: FileId, syms: &[DocumentSymbol]) {
        for s in syms {
            let (a, b) = se(s.range);
            self.range(q, file, a, b);
            self.symbols(q, file, &s.children);
        }
    }
}

/// Workspace files = keys of diagnostics() (the property's observation point), with their texts.
pub fn ws_files(ws: &Ws, a: &Analysis, disk: &BTreeMap<String, String>) -> Result<Vec<FileInfo>, String> {
    let diags = guarded(|| a.diagnostics())?;
    let mut out = Vec::new();
    for id in diags.keys() {
        let path = ws.fs.path_of(*id).unwrap_or_else(|| format!("<unknown {}>", id.0));
        let text = disk.get(&path).cloned().unwrap_or_default();
        let (idents, bounds) = tokens_of(&text);
        out.push(FileInfo { id: *id, path, text, idents, bounds });
    }
    out.sort_by(|x, y| x.path.cmp(&y.path));
    Ok(out)
}

fn offsets_for(fi: &FileInfo, mode: &str, maxn: usize, rng: &mut Rng) -> Vec<usize> {
    let t = &fi.text;
    if mode == "all" {
        return (0..=t.len()).filter(|&o| t.is_char_boundary(o)).collect();
    }
    // start, middle, end of seeded identifier tokens + file ends
    let mut offs = vec![0, t.len()];
    if !fi.idents.is_empty() {
        for _ in 0..maxn {
            let (s, e) = fi.idents[rng.below(fi.idents.len())];
            offs.push(s);
            offs.push(e);
            let mut m = (s + e) / 2;
            while !t.is_char_boundary(m) {
                m -= 1;
            }
            offs.push(m);
        }
    }
    for _ in 0..maxn / 4 + 1 {
        let b = fi.bounds[rng.below(fi.bounds.len())];
        offs.push(b);
    }
    offs.sort();
    offs.dedup();
    offs
}

/// item: {id, files:{path:text}, root, include_dir?, offsets?: "all"|"sample", max_offsets?, seed?,
///        want: ["tot","ranges","coh"]}
pub fn analysis_item(item: &Value) -> Value {
    let id = item.get("id").cloned().unwrap_or(Value::Null);
    let files = files_of(item);
    let root = jstr(item, "root").to_string();
    let mode = item.get("offsets").and_then(|x| x.as_str()).unwrap_or("all").to_string();
    let maxn = item.get("max_offsets").and_then(|x| x.as_u64()).unwrap_or(200) as usize;
    let seed = item.get("seed").and_then(|x| x.as_u64()).unwrap_or(1);
    let want: Vec<String> = item
        .get("want")
        .and_then(|w| w.as_array())
        .map(|a| a.iter().filter_map(|x| x.as_str().map(String::from)).collect())
        .unwrap_or_else(|| vec!["tot".into(), "ranges".into(), "coh".into()]);
    match item.get("include_dir").and_then(|x| x.as_str()) {
        Some(d) => std::env::set_var("INCLUDE_DIR", d),
        None => std::env::remove_var("INCLUDE_DIR"),
    }
    let r = on_thread(ANALYSIS_STACK, move || {
        let mut rng = Rng::new(seed);
        let ws = Ws::open(&files, &root);
        let a = ws.analysis();
        let infos = match ws_files(&ws, &a, &files) {
            Ok(i) => i,
            Err(msg) => {
                return json!({"outcome": "Panic", "msg": msg, "stage": "diagnostics"});
            }
        };
        let by_id: HashMap<FileId, usize> = infos.iter().enumerate().map(|(i, f)| (f.id, i)).collect();
        let mut cx = Ctx {
            files: &infos,
            by_id,
            ranges: vec![],
            fails: vec![],
            nq: 0,
            want_ranges: want.iter().any(|w| w == "ranges"),
        };
        let want_tot = want.iter().any(|w| w == "tot") || cx.want_ranges;
        let want_coh = want.iter().any(|w| w == "coh");

        // diagnostics
        if let Some(d) = cx.call("diagnostics", 0, Value::Null, || a.diagnostics()) {
            for (_f, ds) in d {
                for dg in ds {
                    let (s, e) = se(dg.location.range);
                    cx.range("diagnostics", dg.location.file, s, e);
                }
            }
        }
        let mut idents_out: Vec<Value> = Vec::new();
        let mut interner: HashMap<String, usize> = HashMap::new();
        let mut intern = |s: &str| -> usize {
            let n = interner.len();
            *interner.entry(s.to_string()).or_insert(n)
        };
        for (fi_idx, fi) in infos.iter().enumerate() {
            let f = fi.id;
            if want_tot {
                if let Some(Some(syms)) = cx.call("document_symbol", fi_idx, Value::Null, || a.document_symbol(f)) {
                    cx.symbols("document_symbol", f, &syms);
                }
                if let Some(Some(fr)) = cx.call("folding_range", fi_idx, Value::Null, || a.folding_range(f)) {
                    for r in fr {
                        let (s, e) = se(r.range);
                        cx.range("folding_range", f, s, e);
                    }
                }
                if let Some(Some(ls)) = cx.call("document_link", fi_idx, Value::Null, || a.document_link(f)) {
                    for l in ls {
                        let (s, e) = se(l.range);
                        cx.range("document_link", f, s, e);
                        cx.range("document_link.target", l.target, 0, 0);
                    }
                }
                // inlay hints: full range, every sub-range on token boundaries for small files,
                // seeded sub-ranges and empty ranges otherwise
                let mut rs: Vec<(usize, usize)> = vec![(0, fi.text.len())];
                if fi.text.len() <= 64 {
                    for (i, &s) in fi.bounds.iter().enumerate() {
                        for &e in &fi.bounds[i..] {
                            rs.push((s, e));
                        }
                    }
                } else {
                    for _ in 0..maxn.min(64) {
                        let i = rng.below(fi.bounds.len());
                        let j = i + rng.below(fi.bounds.len() - i);
                        rs.push((fi.bounds[i], fi.bounds[j]));
                        rs.push((fi.bounds[i], fi.bounds[i]));
                    }
                }
                for (s, e) in rs {
                    if let Some(Some(hs)) = cx.call("inlay_hint", fi_idx, json!([s, e]), || a.inlay_hint(frange(f, s, e))) {
                        for h in hs {
                            let p: usize = h.position.into();
                            cx.range("inlay_hint", f, p, p);
                        }
                    }
                }
                for off in offsets_for(fi, &mode, maxn, &mut rng) {
                    if let Some(Some(d)) = cx.call("goto_definition", fi_idx, json!(off), || a.goto_definition(pos(f, off))) {
                        let (s, e) = se(d.range);
                        cx.range("goto_definition", d.file, s, e);
                    }
                    if let Some(Some(rs)) = cx.call("references", fi_idx, json!(off), || a.references(pos(f, off))) {
                        for r in rs {
                            let (s, e) = se(r.range);
                            cx.range("references", r.file, s, e);
                        }
                    }
                    cx.call("hover", fi_idx, json!(off), || a.hover(pos(f, off)));
                    cx.call("completion", fi_idx, json!(off), || a.completion(pos(f, off), None));
                    cx.call("completion!", fi_idx, json!(off), || a.completion(pos(f, off), Some("!".to_string())));
                }
            }
            if want_coh {
                // C06 facts per identifier token
                let mut ids: Vec<(usize, usize)> = fi.idents.clone();
                if ids.len() > maxn.max(50) && mode != "all" {
                    let mut pick = Vec::new();
                    for _ in 0..maxn.max(50) {
                        pick.push(ids[rng.below(ids.len())]);
                    }
                    pick.sort();
                    pick.dedup();
                    ids = pick;
                }
                let is_ident = |file: FileId, s: usize, e: usize| -> bool {
                    cx.by_id.get(&file).map(|&i| infos[i].idents.binary_search(&(s, e)).is_ok()).unwrap_or(false)
                };
                let text_of = |file: FileId, s: usize, e: usize| -> String {
                    cx.by_id
                        .get(&file)
                        .and_then(|&i| infos[i].text.get(s..e))
                        .unwrap_or("\u{0}<no text>")
                        .to_string()
                };
                let fidx = |file: FileId| -> i64 { cx.by_id.get(&file).map(|&i| i as i64).unwrap_or(-1) };
                for (s, e) in ids {
                    let mid = s; // any offset inside the token; also probe last byte below
                    let def = match guarded(|| a.goto_definition(pos(f, mid))) {
                        Ok(d) => d,
                        Err(_) => continue, // totality is C03's business
                    };
                    let Some(d) = def else { continue };
                    let (ds, de) = se(d.range);
                    let refs = guarded(|| a.references(pos(f, mid))).ok().flatten().unwrap_or_default();
                    let mut rv = Vec::new();
                    for r in refs.iter().take(40) {
                        let (rs, re) = se(r.range);
                        let back = guarded(|| a.goto_definition(pos(r.file, rs))).ok().flatten();
                        let backv = match back {
                            Some(b) => {
                                let (bs, be) = se(b.range);
                                json!([fidx(b.file), bs, be])
                            }
                            None => Value::Null,
                        };
                        rv.push(json!({"loc": [fidx(r.file), rs, re], "isIdent": is_ident(r.file, rs, re),
                                       "txt": intern(&text_of(r.file, rs, re)), "def": backv}));
                    }
                    idents_out.push(json!({
                        "loc": [fi_idx as i64, s, e], "txt": intern(&fi.text[s..e]),
                        "def": {"loc": [fidx(d.file), ds, de], "isIdent": is_ident(d.file, ds, de), "txt": intern(&text_of(d.file, ds, de))},
                        "nrefs": refs.len(), "refs": rv,
                    }));
                }
            }
        }
        let paths: Vec<&str> = infos.iter().map(|f| f.path.as_str()).collect();
        json!({
            "outcome": "Ok", "ws": paths, "nq": cx.nq, "fails": cx.fails,
            "ranges": cx.ranges, "idents": idents_out,
        })
    });
    match r {
        Ok(mut v) => {
            v["id"] = id;
            v
        }
        Err(msg) => json!({"id": id, "outcome": "Panic", "msg": msg, "stage": "setup"}),
    }
}
