//! In-memory `ide::file_system::FileSystem` and a small workspace wrapper around `AnalysisHost`.
//! (The `pub mod tests` fixture of the ide crate is deliberately not used.)

use std::collections::{BTreeMap, HashMap};
use std::path::{Path, PathBuf};
use std::sync::Arc;

use ide::analysis::{Analysis, AnalysisHost};
use ide::file_system::{FileId, FilePath, FileSet, FileSystem};

#[derive(Default)]
pub struct MemFs {
    pub files: HashMap<PathBuf, String>,
    set: FileSet,
    next: u32,
    pub reads: std::cell::Cell<u64>,
}

impl MemFs {
    pub fn id_of(&self, path: &str) -> Option<FileId> {
        self.set.file_for_path(&FilePath::from(Path::new(path)))
    }
    pub fn path_of(&self, id: FileId) -> Option<String> {
        if self.set.contains(&id) {
            Some(self.set.path_for_file(&id).0.to_string_lossy().to_string())
        } else {
            None
        }
    }
}

impl FileSystem for MemFs {
    fn assign_or_get_file_id(&mut self, path: FilePath) -> FileId {
        match self.set.file_for_path(&path) {
            Some(id) => id,
            None => {
                let id = FileId(self.next);
                self.next += 1;
                self.set.insert(id, path);
                id
            }
        }
    }
    fn path_for_file(&self, file_id: &FileId) -> &FilePath {
        self.set.path_for_file(file_id)
    }
    fn read_content(&self, file_path: &FilePath) -> Option<String> {
        self.reads.set(self.reads.get() + 1);
        self.files.get(&file_path.0).cloned()
    }
}

/// A workspace: files by absolute path, one root, one long-lived host.
pub struct Ws {
    pub host: AnalysisHost,
    pub fs: MemFs,
    pub root: Option<FileId>,
}

impl Ws {
    pub fn new() -> Self {
        Ws {
            host: AnalysisHost::new(),
            fs: MemFs::default(),
            root: None,
        }
    }

    /// files: path -> text (all "on disk"); root: path. Mirrors what a client of AnalysisHost does:
    /// set_file_content(root) then set_root_file(root).
    pub fn open(files: &BTreeMap<String, String>, root: &str) -> Self {
        let mut ws = Ws::new();
        for (p, t) in files {
            ws.fs.files.insert(PathBuf::from(p), t.clone());
        }
        ws.touch(root, files.get(root).map(|s| s.as_str()).unwrap_or(""));
        ws
    }

    /// The only thing the server ever does: write the text of `path`, make it the root.
    pub fn touch(&mut self, path: &str, text: &str) {
        let id = self
            .fs
            .assign_or_get_file_id(FilePath::from(Path::new(path)));
        self.host.set_file_content(id, Arc::from(text));
        self.host.set_root_file(&mut self.fs, id);
        self.root = Some(id);
    }

    pub fn disk_write(&mut self, path: &str, text: Option<&str>) {
        match text {
            Some(t) => {
                self.fs.files.insert(PathBuf::from(path), t.to_string());
            }
            None => {
                self.fs.files.remove(Path::new(path));
            }
        }
    }

    pub fn analysis(&self) -> Analysis {
        self.host.analysis()
    }
}
