//! C20: the completion vocabularies as the running code offers them, the real lexer's verdict on
//! every word, and the parser's verdict on minimal statements.  Tables only; Vocab.tla judges.

use std::collections::BTreeMap;

use ide::file_system::FilePosition;
use serde_json::{json, Value};
use syntax::lexer::Lexer;
use syntax::parser::TextSize;
use syntax::token_stream::TokenStream;

use crate::memfs::Ws;
use crate::util::{guarded, jarr, jstr, on_thread, ANALYSIS_STACK};

fn complete(files: &BTreeMap<String, String>, root: &str, path: &str, off: usize, trigger: Option<&str>) -> Option<Vec<(String, Option<String>)>> {
    let ws = Ws::open(files, root);
    let a = ws.analysis();
    let id = ws.fs.id_of(path)?;
    let pos = FilePosition::new(id, TextSize::from(off as u32));
    let trig = trigger.map(|s| s.to_string());
    guarded(|| a.completion(pos, trig))
        .ok()
        .flatten()
        .map(|v| v.into_iter().map(|c| (c.label, c.insert_text_snippet)).collect())
}

fn one_file(text: &str) -> BTreeMap<String, String> {
    let mut m = BTreeMap::new();
    m.insert("/w/main.td".to_string(), text.to_string());
    m
}

/// the kind of the FIRST token of `text` and whether it spans the whole text without error
fn lex_kind(text: &str) -> String {
    let mut lx = Lexer::new(text);
    let k = lx.eat();
    let whole = lx.cursor() == text.len();
    let err = lx.take_error().is_some();
    format!("{:?}{}{}", k, if whole { "" } else { "+rest" }, if err { "+error" } else { "" })
}

/// item: {id, bang_contexts: [[text, offset]], keyword_ctx, type_ctx, value_ctx: [text, offset], words: [..], bang_words: [..],
///        statements: {kw: text}, class_cases: [{files, root, path, offset, ...}]}
pub fn vocab_item(item: &Value) -> Value {
    let id = item.get("id").cloned().unwrap_or(Value::Null);
    let item = item.clone();
    let r = on_thread(ANALYSIS_STACK, move || {
        let labels = |c: &Value, trig: Option<&str>| -> Vec<String> {
            let t = c[0].as_str().unwrap_or("");
            let off = c[1].as_u64().unwrap_or(0) as usize;
            complete(&one_file(t), "/w/main.td", "/w/main.td", off, trig).unwrap_or_default().into_iter().map(|x| x.0).collect()
        };
        // what the "!" trigger adds at a position = offered with the trigger minus offered without it
        let bang_ctx: Vec<Value> = jarr(&item, "bang_contexts")
            .iter()
            .map(|c| {
                let without = labels(c, None);
                let with: Vec<String> = labels(c, Some("!")).into_iter().filter(|l| !without.contains(l)).collect();
                json!({"ctx": c[0], "offered": with})
            })
            .collect();
        let kws = labels(&item["keyword_ctx"], None);
        let tys = labels(&item["type_ctx"], None);
        let vals = labels(&item["value_ctx"], None);
        let mut lex = serde_json::Map::new();
        for w in jarr(&item, "words") {
            let w = w.as_str().unwrap_or("");
            lex.insert(w.to_string(), json!(lex_kind(w)));
        }
        for w in kws.iter().chain(tys.iter()).chain(vals.iter()) {
            lex.insert(w.clone(), json!(lex_kind(w)));
        }
        let mut bang_words: Vec<String> = jarr(&item, "bang_words").iter().map(|w| w.as_str().unwrap_or("").to_string()).collect();
        for c in &bang_ctx {
            for w in jarr(c, "offered") {
                bang_words.push(w.as_str().unwrap_or("").to_string());
            }
        }
        for w in bang_words {
            let t = format!("!{}", w);
            lex.insert(t.clone(), json!(lex_kind(&t)));
        }
        // candidate spellings (morpheme combinations, deprecated names): only the ones the lexer takes as an operator are reported
        for w in jarr(&item, "bang_candidates") {
            let t = format!("!{}", w.as_str().unwrap_or(""));
            let k = lex_kind(&t);
            if k.starts_with('X') && !k.contains('+') {
                lex.insert(t, json!(k));
            }
        }
        let mut parses = serde_json::Map::new();
        if let Some(o) = item.get("statements").and_then(|s| s.as_object()) {
            for (k, t) in o {
                let p = syntax::parse(t.as_str().unwrap_or(""));
                parses.insert(k.clone(), json!(p.errors().is_empty()));
            }
        }
        let mut cases = Vec::new();
        for c in jarr(&item, "class_cases") {
            let files = crate::ws_obs::files_of(c);
            let got = complete(&files, jstr(c, "root"), jstr(c, "path"), c["offset"].as_u64().unwrap_or(0) as usize, None).unwrap_or_default();
            let offered: Vec<Value> = got
                .iter()
                .map(|(l, s)| {
                    let n = s.as_deref().map(|s| s.matches("${").count()).unwrap_or(0);
                    json!([l, n, s])
                })
                .collect();
            cases.push(json!({"offered": offered}));
        }
        json!({"outcome": "Ok", "bangCtx": bang_ctx, "offered": {"keywords": kws, "types": tys, "values": vals}, "lex": lex, "parses": parses,
               "classCases": cases})
    });
    match r {
        Ok(mut v) => {
            v["id"] = id;
            v
        }
        Err(msg) => json!({"id": id, "outcome": "Panic", "msg": msg}),
    }
}
