//! C10: the real position mapping (ide::line_index::LineIndex through lsp::to_proto / from_proto),
//! call by call under catch_unwind, for one text given as a sequence of character classes.

use async_lsp::lsp_types;
use ide::line_index::LineIndex;
use serde_json::{json, Value};
use text_size::TextSize;

use crate::util::{guarded, jarr};

pub fn class_char(c: &str) -> &'static str {
    match c {
        "a" => "a",
        "s" => " ",
        "LF" => "\n",
        "CR" => "\r",
        "b2" => "é",
        "b3" => "€",
        "b4" => "\u{1d11e}",
        "FF" => "\u{c}",
        "LS" => "\u{2028}",
        _ => "?",
    }
}

/// item: {id, text: [classes], to: [[off,line,col]...], from: [[line,col,off]...]}
/// returns the observed value for every requested entry (or "panic")
pub fn pos_item(item: &Value) -> Value {
    let id = item.get("id").cloned().unwrap_or(Value::Null);
    let text: String = jarr(item, "text").iter().map(|c| class_char(c.as_str().unwrap_or(""))).collect();
    let li = match guarded(|| LineIndex::new(&text)) {
        Ok(li) => li,
        Err(msg) => return json!({"id": id, "outcome": "Panic", "msg": msg}),
    };
    let mut to = Vec::new();
    for e in jarr(item, "to") {
        let off = e[0].as_u64().unwrap_or(0) as u32;
        match guarded(|| lsp::to_proto::position(&li, TextSize::from(off))) {
            Ok(p) => to.push(json!([off, p.line, p.character])),
            Err(m) => to.push(json!([off, "panic", m])),
        }
    }
    let mut from = Vec::new();
    for e in jarr(item, "from") {
        let line = e[0].as_u64().unwrap_or(0) as u32;
        let col = e[1].as_u64().unwrap_or(0) as u32;
        match guarded(|| lsp::from_proto::position(&li, lsp_types::Position::new(line, col))) {
            Ok(o) => from.push(json!([line, col, u32::from(o)])),
            Err(m) => from.push(json!([line, col, "panic", m])),
        }
    }
    // ranges: for every pair of requested offsets a <= b, to_proto::range must be the two positions of a and b (those are checked
    // against the reference one by one), and from_proto::range must take it back to what from_proto::position gives for its ends
    let mut ranges = Vec::new();
    let offs: Vec<u32> = jarr(item, "to").iter().map(|e| e[0].as_u64().unwrap_or(0) as u32).collect();
    for (i, &a) in offs.iter().enumerate() {
        for &b in &offs[i..] {
            if b < a {
                continue;
            }
            let want = guarded(|| (lsp::to_proto::position(&li, TextSize::from(a)), lsp::to_proto::position(&li, TextSize::from(b))));
            let got = guarded(|| lsp::to_proto::range(&li, text_size::TextRange::new(a.into(), b.into())));
            match (want, got) {
                (Ok((ws, we)), Ok(r)) => {
                    if r.start != ws || r.end != we {
                        ranges.push(json!([a, b, "to", [ws.line, ws.character, we.line, we.character], [r.start.line, r.start.character, r.end.line, r.end.character]]));
                    }
                    let back_want = guarded(|| (lsp::from_proto::position(&li, r.start), lsp::from_proto::position(&li, r.end)));
                    let back = guarded(|| lsp::from_proto::range(&li, r));
                    match (back_want, back) {
                        (Ok((s0, e0)), Ok(br)) => {
                            if br.start() != s0 || br.end() != e0 {
                                ranges.push(json!([a, b, "from", [u32::from(s0), u32::from(e0)], [u32::from(br.start()), u32::from(br.end())]]));
                            }
                        }
                        (Ok(_), Err(m)) => ranges.push(json!([a, b, "from-panic", m])),
                        _ => {}
                    }
                }
                (Ok(_), Err(m)) => ranges.push(json!([a, b, "to-panic", m])),
                _ => {}
            }
        }
    }
    // one LineIndex shared by several threads (as the tasks of one revision share the memoised one): every conversion must give
    // what a thread of its own gives
    let mut races = 0u64;
    if item.get("concurrent").and_then(|x| x.as_bool()).unwrap_or(false) {
        let bounds: Vec<u32> = (0..=text.len()).filter(|&i| text.is_char_boundary(i)).map(|i| i as u32).collect();
        let seq: Vec<(u32, u32)> = bounds.iter().map(|&o| { let p = lsp::to_proto::position(&li, TextSize::from(o)); (p.line, p.character) }).collect();
        let shared = std::sync::Arc::new(LineIndex::new(&text));
        let bounds = std::sync::Arc::new(bounds);
        let seq = std::sync::Arc::new(seq);
        let mut hs = Vec::new();
        for t in 0..8u64 {
            let (shared, bounds, seq) = (shared.clone(), bounds.clone(), seq.clone());
            hs.push(std::thread::spawn(move || {
                let mut bad = 0u64;
                let mut x = 0x9E3779B97F4A7C15u64.wrapping_mul(t + 1);
                for _ in 0..40_000 {
                    x ^= x << 13; x ^= x >> 7; x ^= x << 17;
                    let k = (x % bounds.len() as u64) as usize;
                    let p = lsp::to_proto::position(&shared, TextSize::from(bounds[k]));
                    if (p.line, p.character) != seq[k] {
                        bad += 1;
                    }
                }
                bad
            }));
        }
        for h in hs {
            races += h.join().unwrap_or(1);
        }
    }
    json!({"id": id, "outcome": "Ok", "to": to, "from": from, "ranges": ranges, "races": races})
}
