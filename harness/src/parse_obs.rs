//! Observation of `syntax::parse` and of the bare lexer. No oracle here: the record is the
//! projection of what the code did; TLC (spec/Obs.tla, spec/Grammar.tla ...) is the judge.

use serde_json::{json, Value};
use syntax::lexer::Lexer;
use syntax::token_stream::TokenStream;

use crate::util::{jstr, on_thread, PARSE_STACK};

pub fn step_limit(len: usize) -> u64 {
    4096 * (len as u64 + 16)
}

/// item: {id, text, want?: ["kinds","tree"]}
pub fn parse_item(item: &Value) -> Value {
    let text = jstr(item, "text").to_string();
    let want_kinds = item
        .get("want")
        .and_then(|w| w.as_array())
        .map(|a| a.iter().any(|x| x == "kinds"))
        .unwrap_or(false);
    let id = item.get("id").cloned().unwrap_or(Value::Null);
    let t2 = text.clone();
    let r = on_thread(PARSE_STACK, move || {
        syntax::verif::reset(step_limit(t2.len()));
        let t_parse = std::time::Instant::now();
        let p = syntax::parse(&t2);
        let us = t_parse.elapsed().as_micros() as u64;
        let steps = syntax::verif::steps();
        syntax::verif::reset(u64::MAX);
        // number of raw lexical tokens (a skipped conditional region is one tree token but many lexer tokens)
        let mut nraw = 0u64;
        {
            let mut lx = Lexer::new(&t2);
            while lx.eat() != syntax::token_kind::TokenKind::Eof {
                nraw += 1;
            }
        }
        let node = p.syntax_node();
        let mut ts = Vec::new();
        let mut te = Vec::new();
        let mut tq = Vec::new();
        let mut tb = Vec::new();
        let mut tk = Vec::new();
        let mut nontrivia = 0u64;
        for el in node.descendants_with_tokens() {
            if let Some(tok) = el.into_token() {
                let r = tok.text_range();
                let s: usize = r.start().into();
                let e: usize = r.end().into();
                ts.push(s);
                te.push(e);
                let eq = e <= t2.len() && s <= e && t2.is_char_boundary(s) && t2.is_char_boundary(e) && &t2[s..e] == tok.text();
                tq.push(eq);
                tb.push(s <= t2.len() && t2.is_char_boundary(s));
                if !tok.kind().is_trivia() {
                    nontrivia += 1;
                }
                if want_kinds {
                    tk.push(format!("{:?}", tok.kind()));
                }
            }
        }
        let tree_eq = node.text().to_string() == t2;
        let errs: Vec<Value> = p
            .errors()
            .iter()
            .map(|e| {
                let s: usize = e.range.start().into();
                let en: usize = e.range.end().into();
                json!([
                    s,
                    en,
                    s <= t2.len() && t2.is_char_boundary(s),
                    en <= t2.len() && t2.is_char_boundary(en),
                    e.message.len()
                ])
            })
            .collect();
        let root_kind = format!("{:?}", node.kind());
        json!({
            "len": t2.len(), "ntok": ts.len(), "nontrivia": nontrivia, "steps": steps, "nraw": nraw, "us": us,
            "ts": ts, "te": te, "tq": tq, "tb": tb, "tk": tk,
            "treeEq": tree_eq, "errs": errs, "root": root_kind,
            "lastb": t2.is_char_boundary(t2.len()),
        })
    });
    match r {
        Ok(mut v) => {
            v["id"] = id;
            v["outcome"] = json!("Ok");
            v
        }
        Err(msg) => json!({"id": id, "outcome": "Panic", "msg": msg, "len": text.len()}),
    }
}

/// Bare lexer through TokenStream: kinds, boundaries, error messages.
/// item: {id, text}  ->  {toks: [[kind, s, e, err|""]...]}
pub fn lex_item(item: &Value) -> Value {
    let text = jstr(item, "text").to_string();
    let id = item.get("id").cloned().unwrap_or(Value::Null);
    let t2 = text.clone();
    let r = on_thread(PARSE_STACK, move || {
        syntax::verif::reset(step_limit(t2.len()));
        let mut lx = Lexer::new(&t2);
        let mut toks = Vec::new();
        loop {
            let s = lx.cursor();
            let k = lx.eat();
            let e = lx.cursor();
            let err = lx.take_error().map(|m| m.to_string()).unwrap_or_default();
            if k == syntax::token_kind::TokenKind::Eof {
                break;
            }
            toks.push(json!([format!("{:?}", k), s, e, err]));
        }
        syntax::verif::reset(u64::MAX);
        json!({"toks": toks, "len": t2.len()})
    });
    match r {
        Ok(mut v) => {
            v["id"] = id;
            v["outcome"] = json!("Ok");
            v
        }
        Err(msg) => json!({"id": id, "outcome": "Panic", "msg": msg}),
    }
}
