//! Crash-isolating worker pool: every item is executed in a child process (`tgverif worker`),
//! so that a stack overflow (SIGABRT) or a hang of the code under test is *data*, attributed
//! to the item that caused it, and does not take the run down.

use std::io::{BufRead, BufReader, Write};
use std::process::{Child, ChildStdin, Command, Stdio};
use std::sync::atomic::{AtomicUsize, Ordering};
use std::sync::mpsc::{channel, Receiver, RecvTimeoutError};
use std::sync::{Arc, Mutex};
use std::time::Duration;

struct Worker {
    child: Child,
    stdin: ChildStdin,
    rx: Receiver<String>,
}

fn spawn_worker(env: &[(String, String)]) -> Worker {
    let exe = std::env::current_exe().expect("current_exe");
    let mut cmd = Command::new(exe);
    cmd.arg("worker")
        .stdin(Stdio::piped())
        .stdout(Stdio::piped())
        .stderr(Stdio::null());
    for (k, v) in env {
        cmd.env(k, v);
    }
    let mut child = cmd.spawn().expect("spawn worker");
    let stdin = child.stdin.take().unwrap();
    let stdout = child.stdout.take().unwrap();
    let (tx, rx) = channel();
    std::thread::spawn(move || {
        let r = BufReader::new(stdout);
        for line in r.lines() {
            match line {
                Ok(l) => {
                    if tx.send(l).is_err() {
                        break;
                    }
                }
                Err(_) => break,
            }
        }
    });
    Worker { child, stdin, rx }
}

enum Attempt {
    Done(String),
    Hang,
    Crash(String),
}

fn attempt(w: &mut Option<Worker>, item: &str, timeout: Duration, env: &[(String, String)]) -> Attempt {
    if w.is_none() {
        *w = Some(spawn_worker(env));
    }
    let wk = w.as_mut().unwrap();
    let sent = wk
        .stdin
        .write_all(item.as_bytes())
        .and_then(|_| wk.stdin.write_all(b"\n"))
        .and_then(|_| wk.stdin.flush());
    if sent.is_err() {
        let st = kill(w);
        return Attempt::Crash(st);
    }
    match wk.rx.recv_timeout(timeout) {
        Ok(line) => Attempt::Done(line),
        Err(RecvTimeoutError::Timeout) => {
            kill(w);
            Attempt::Hang
        }
        Err(RecvTimeoutError::Disconnected) => {
            let st = kill(w);
            Attempt::Crash(st)
        }
    }
}

fn kill(w: &mut Option<Worker>) -> String {
    let mut status = String::from("unknown");
    if let Some(mut wk) = w.take() {
        // the child may already be dead (crash): try_wait first to get its real status
        match wk.child.try_wait() {
            Ok(Some(st)) => status = fmt_status(st),
            _ => {
                // give a dying child a moment, then kill
                std::thread::sleep(Duration::from_millis(50));
                match wk.child.try_wait() {
                    Ok(Some(st)) => status = fmt_status(st),
                    _ => {
                        let _ = wk.child.kill();
                        if let Ok(st) = wk.child.wait() {
                            status = format!("killed({})", fmt_status(st));
                        }
                    }
                }
            }
        }
    }
    status
}

fn fmt_status(st: std::process::ExitStatus) -> String {
    use std::os::unix::process::ExitStatusExt;
    if let Some(sig) = st.signal() {
        format!("signal {}", sig)
    } else {
        format!("exit {}", st.code().unwrap_or(-1))
    }
}

fn item_id(item: &str) -> serde_json::Value {
    serde_json::from_str::<serde_json::Value>(item)
        .ok()
        .and_then(|v| v.get("id").cloned())
        .unwrap_or(serde_json::Value::Null)
}

/// Runs every item (one JSON line each) in worker children; returns one JSON line per item, in
/// input order. A hang is only recorded after the item hung again alone with 5x the limit.
pub fn run_items(items: Vec<String>, jobs: usize, timeout_ms: u64, env: Vec<(String, String)>) -> Vec<String> {
    // circuit breaker: a defect that hangs (or kills) a whole family of items must not turn one run into hours;
    // after MAX_BAD confirmed hangs/crashes the remaining items are reported as Skipped (the run is a violation anyway)
    let max_bad: usize = std::env::var("VERIF_MAX_BAD").ok().and_then(|s| s.parse().ok()).unwrap_or(12);
    let bad = Arc::new(AtomicUsize::new(0));
    let n = items.len();
    let items = Arc::new(items);
    let results: Arc<Mutex<Vec<Option<String>>>> = Arc::new(Mutex::new(vec![None; n]));
    let next = Arc::new(AtomicUsize::new(0));
    let env = Arc::new(env);
    let mut handles = Vec::new();
    for _ in 0..jobs.max(1).min(n.max(1)) {
        let items = items.clone();
        let results = results.clone();
        let next = next.clone();
        let env = env.clone();
        let bad = bad.clone();
        handles.push(std::thread::spawn(move || {
            let mut w: Option<Worker> = None;
            loop {
                let i = next.fetch_add(1, Ordering::SeqCst);
                if i >= items.len() {
                    break;
                }
                let item = &items[i];
                if bad.load(Ordering::SeqCst) >= max_bad {
                    results.lock().unwrap()[i] = Some(serde_json::json!({"id": item_id(item), "outcome": "Skipped"}).to_string());
                    continue;
                }
                let t = Duration::from_millis(timeout_ms);
                let out = match attempt(&mut w, item, t, &env) {
                    Attempt::Done(l) => l,
                    first => {
                        // re-run alone in a fresh child with 5x the limit
                        let mut w2: Option<Worker> = None;
                        let r = attempt(&mut w2, item, t * 5, &env);
                        kill(&mut w2);
                        match (first, r) {
                            (_, Attempt::Done(l)) => l,
                            (_, Attempt::Hang) => {
                                bad.fetch_add(1, Ordering::SeqCst);
                                serde_json::json!({"id": item_id(item), "outcome": "Hang"}).to_string()
                            }
                            (_, Attempt::Crash(st)) => {
                                bad.fetch_add(1, Ordering::SeqCst);
                                serde_json::json!({"id": item_id(item), "outcome": "Crash", "status": st}).to_string()
                            }
                        }
                    }
                };
                results.lock().unwrap()[i] = Some(out);
            }
            kill(&mut w);
        }));
    }
    for h in handles {
        let _ = h.join();
    }
    let mut res = results.lock().unwrap();
    res.iter_mut().map(|r| r.take().unwrap_or_default()).collect()
}
