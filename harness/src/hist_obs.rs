//! C16 / C07: one long-lived AnalysisHost executes a history of edits and root switches; after
//! every action the projected workspace observation is recorded, together with the verdict of the
//! differential comparison "same full query set as a freshly started host given only the final
//! file contents" (order-insensitive where the code iterates hash containers).

use std::collections::BTreeMap;

use ide::analysis::Analysis;
use ide::file_system::{FileId, FilePosition};
use ide::handlers::document_symbol::DocumentSymbol;
use serde_json::{json, Value};
use syntax::parser::TextSize;

use crate::memfs::Ws;
use crate::util::{guarded, jarr, jstr, on_thread, ANALYSIS_STACK};
use crate::ws_obs::tokens_of;

fn sym_json(s: &DocumentSymbol) -> Value {
    json!({"name": s.name.to_string(), "typ": s.typ.to_string(), "kind": format!("{:?}", s.kind),
           "range": [u32::from(s.range.start()), u32::from(s.range.end())],
           "children": s.children.iter().map(sym_json).collect::<Vec<_>>()})
}

/// The observation the reference model speaks about + a canonical dump of the full query set.
fn observe(ws: &Ws, fs: &BTreeMap<String, String>) -> (Value, String) {
    let a: Analysis = ws.analysis();
    let path = |id: FileId| ws.fs.path_of(id).unwrap_or_else(|| format!("<{}>", id.0));
    let diags = match guarded(|| a.diagnostics()) {
        Ok(d) => d,
        Err(m) => return (json!({"outcome": "Panic", "msg": m}), String::new()),
    };
    let mut files: Vec<(String, FileId)> = diags.keys().map(|id| (path(*id), *id)).collect();
    files.sort();
    let mut per_file = Vec::new();
    let mut full = Vec::new();
    for (p, id) in &files {
        let outline: Vec<Value> = guarded(|| a.document_symbol(*id)).ok().flatten().unwrap_or_default().iter().map(sym_json).collect();
        let names: Vec<String> = outline.iter().map(|s| s["name"].as_str().unwrap_or("").to_string()).collect();
        let links: Vec<Value> = guarded(|| a.document_link(*id))
            .ok()
            .flatten()
            .unwrap_or_default()
            .iter()
            .map(|l| json!([u32::from(l.range.start()), u32::from(l.range.end()), path(l.target)]))
            .collect();
        let mut ds: Vec<Value> = diags[id]
            .iter()
            .map(|d| json!([u32::from(d.location.range.start()), u32::from(d.location.range.end()), d.message, path(d.location.file)]))
            .collect();
        ds.sort_by_key(|v| v.to_string());
        let folds: Vec<Value> = guarded(|| a.folding_range(*id))
            .ok()
            .flatten()
            .unwrap_or_default()
            .iter()
            .map(|f| json!([u32::from(f.range.start()), u32::from(f.range.end())]))
            .collect();
        // definition / references / hover at every identifier token of the file's current text
        let text = fs.get(p).cloned().unwrap_or_default();
        let (idents, _) = tokens_of(&text);
        let mut nav = Vec::new();
        for (s, _e) in idents {
            let pos = FilePosition::new(*id, TextSize::from(s as u32));
            let d = guarded(|| a.goto_definition(pos)).ok().flatten().map(|r| json!([path(r.file), u32::from(r.range.start()), u32::from(r.range.end())]));
            let mut rs: Vec<Value> = guarded(|| a.references(pos))
                .ok()
                .flatten()
                .unwrap_or_default()
                .iter()
                .map(|r| json!([path(r.file), u32::from(r.range.start()), u32::from(r.range.end())]))
                .collect();
            rs.sort_by_key(|v| v.to_string());
            let h = guarded(|| a.hover(pos)).ok().flatten().map(|h| json!([h.signature, h.document]));
            nav.push(json!([s, d, rs, h]));
        }
        per_file.push(json!({"path": p, "outline": names, "links": links, "diags": ds}));
        full.push(json!({"path": p, "outline": outline, "links": links, "diags": ds, "folds": folds, "nav": nav}));
    }
    let ws_paths: Vec<&String> = files.iter().map(|(p, _)| p).collect();
    (json!({"outcome": "Ok", "ws": ws_paths, "files": per_file}), serde_json::to_string(&full).unwrap())
}

/// item: {id, files0: {path: text}, root0, include_dir, steps: [{a: Touch|Reroot|Disk, path, text?}]}
pub fn hist_item(item: &Value) -> Value {
    let id = item.get("id").cloned().unwrap_or(Value::Null);
    let item = item.clone();
    match item.get("include_dir").and_then(|x| x.as_str()) {
        Some(d) => std::env::set_var("INCLUDE_DIR", d),
        None => std::env::remove_var("INCLUDE_DIR"),
    }
    let r = on_thread(ANALYSIS_STACK, move || {
        let mut fs: BTreeMap<String, String> = crate::ws_obs::files_of(&json!({"files": item["files0"]}));
        let mut root = jstr(&item, "root0").to_string();
        let mut ws = Ws::open(&fs, &root);
        let mut out = Vec::new();
        let fresh = |fs: &BTreeMap<String, String>, root: &str| -> String {
            let w = Ws::open(fs, root);
            observe(&w, fs).1
        };
        let (o, full) = observe(&ws, &fs);
        let same = full == fresh(&fs, &root);
        out.push(json!({"obs": o, "fresh_equal": same}));
        for st in jarr(&item, "steps") {
            let p = jstr(st, "path").to_string();
            match jstr(st, "a") {
                "Touch" => {
                    let t = jstr(st, "text").to_string();
                    fs.insert(p.clone(), t.clone());
                    ws.disk_write(&p, Some(&t));
                    ws.touch(&p, &t);
                    root = p;
                }
                "Reroot" => {
                    let t = fs.get(&p).cloned().unwrap_or_default();
                    ws.touch(&p, &t);
                    root = p;
                }
                "Disk" => {
                    match st.get("text").and_then(|t| t.as_str()) {
                        Some(t) => {
                            fs.insert(p.clone(), t.to_string());
                            ws.disk_write(&p, Some(t));
                        }
                        None => {
                            fs.remove(&p);
                            ws.disk_write(&p, None);
                        }
                    }
                    let t = fs.get(&root).cloned().unwrap_or_default();
                    let r2 = root.clone();
                    ws.touch(&r2, &t);
                }
                _ => {}
            }
            let (o, full) = observe(&ws, &fs);
            let fr = fresh(&fs, &root);
            let same = full == fr;
            let mut rec = json!({"obs": o, "fresh_equal": same});
            if !same {
                rec["long_lived"] = json!(full.chars().take(1500).collect::<String>());
                rec["fresh"] = json!(fr.chars().take(1500).collect::<String>());
            }
            out.push(rec);
        }
        json!({"outcome": "Ok", "steps": out, "reads": ws.fs.reads.get()})
    });
    match r {
        Ok(mut v) => {
            v["id"] = id;
            v
        }
        Err(msg) => json!({"id": id, "outcome": "Panic", "msg": msg}),
    }
}
