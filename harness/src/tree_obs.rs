//! C04 forward direction: parse a rendered sentence, report errors, the real lexer's non-trivia
//! token kinds, and every node reachable through the typed accessors (generated walker), each as
//! (kind, index of first non-trivia token, index of last non-trivia token), in traversal order.

use serde_json::{json, Value};
use syntax::ast::AstNode;

use crate::ast_walk_gen;
use crate::util::{jstr, on_thread, PARSE_STACK};

pub fn tree_item(item: &Value) -> Value {
    let text = jstr(item, "text").to_string();
    let id = item.get("id").cloned().unwrap_or(Value::Null);
    let want_nodes = item.get("nodes").and_then(|x| x.as_bool()).unwrap_or(true);
    let r = on_thread(PARSE_STACK, move || {
        syntax::verif::reset(crate::parse_obs::step_limit(text.len()));
        let p = syntax::parse(&text);
        syntax::verif::reset(u64::MAX);
        let root = p.syntax_node();
        let mut kinds = Vec::new();
        let mut starts = Vec::new();
        let mut ends = Vec::new();
        for el in root.descendants_with_tokens() {
            if let Some(t) = el.into_token() {
                if !t.kind().is_trivia() {
                    kinds.push(format!("{:?}", t.kind()));
                    starts.push(usize::from(t.text_range().start()));
                    ends.push(usize::from(t.text_range().end()));
                }
            }
        }
        let mut nodes = Vec::new();
        if want_nodes {
            let mut out = Vec::new();
            if let Some(sf) = syntax::ast::SourceFile::cast(root.clone()) {
                ast_walk_gen::walk_SourceFile(&sf, &mut out);
            }
            for (k, s, e) in out {
                let first = starts.partition_point(|&x| x < s);
                let last_excl = ends.partition_point(|&x| x <= e);
                if first < last_excl {
                    nodes.push(json!([k, first, last_excl - 1]));
                }
            }
        }
        let errs: Vec<Value> = p
            .errors()
            .iter()
            .map(|e| json!([usize::from(e.range.start()), usize::from(e.range.end()), e.message]))
            .collect();
        json!({"outcome": "Ok", "kinds": kinds, "nodes": nodes, "errs": errs, "nerr": p.errors().len()})
    });
    match r {
        Ok(mut v) => {
            v["id"] = id;
            v
        }
        Err(msg) => json!({"id": id, "outcome": "Panic", "msg": msg}),
    }
}
