//! C15: what the parser and the analysis make of one preprocessor arrangement:
//! the non-trivia tokens delivered, syntax errors (with messages), the outline, diagnostics.

use std::collections::BTreeMap;

use serde_json::{json, Value};

use crate::memfs::Ws;
use crate::util::{guarded, jstr, on_thread, ANALYSIS_STACK};

pub fn pp_item(item: &Value) -> Value {
    let id = item.get("id").cloned().unwrap_or(Value::Null);
    let text = jstr(item, "text").to_string();
    let r = on_thread(ANALYSIS_STACK, move || {
        let p = syntax::parse(&text);
        let mut toks = Vec::new();
        for el in p.syntax_node().descendants_with_tokens() {
            if let Some(t) = el.into_token() {
                if !t.kind().is_trivia() {
                    toks.push(t.text().to_string());
                }
            }
        }
        let errs: Vec<Value> = p.errors().iter().map(|e| json!(e.message)).collect();
        let mut files = BTreeMap::new();
        files.insert("/w/main.td".to_string(), text.clone());
        let ws = Ws::open(&files, "/w/main.td");
        let a = ws.analysis();
        let root = ws.root.unwrap();
        let outline: Vec<String> = guarded(|| a.document_symbol(root))
            .ok()
            .flatten()
            .map(|v| v.into_iter().map(|s| s.name.to_string()).collect())
            .unwrap_or_default();
        let diags: Vec<String> = guarded(|| a.diagnostics())
            .map(|m| m.into_values().flatten().map(|d| d.message).collect())
            .unwrap_or_else(|e| vec![format!("PANIC {e}")]);
        json!({"outcome": "Ok", "toks": toks, "errs": errs, "outline": outline, "diags": diags})
    });
    match r {
        Ok(mut v) => {
            v["id"] = id;
            v
        }
        Err(msg) => json!({"id": id, "outcome": "Panic", "msg": msg}),
    }
}
