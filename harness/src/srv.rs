//! In-process driver of the real `lsp::server::Server` under the same layers as main.rs
//! (Lifecycle, Concurrency), over an in-memory duplex pipe, with a *controlled scheduler* built
//! on the cfg(tablegen_lsp_verif) schedule points: every hook parks its thread until the
//! controller, following a total-order schedule (a projected TLC behaviour of ServerImpl.tla),
//! grants it.  The recorded JSON-RPC trace (what the client sent and received, in order) and the
//! hook trace are the observation; spec/TraceServer.tla is the judge.

use std::collections::HashMap;
use std::path::PathBuf;
use std::sync::{Arc, Condvar, Mutex};
use std::time::{Duration, Instant};

use async_lsp::concurrency::ConcurrencyLayer;
use async_lsp::server::LifecycleLayer;
use serde_json::{json, Value};
use tokio::io::{AsyncReadExt, AsyncWriteExt};
use tokio_util::compat::{TokioAsyncReadCompatExt, TokioAsyncWriteCompatExt};
use tower::ServiceBuilder;

use crate::util::{jarr, jstr, ju64};

#[derive(Default)]
struct Ctl {
    control: bool,
    free_run: bool,
    parked: HashMap<String, (String, u64)>, // who -> (point, raw id)
    grants: HashMap<String, u64>,           // who -> number of grants pending
    hooklog: Vec<Value>,
    task_idx: HashMap<u64, usize>,
    spawned: usize,
    ended: usize,
    notif_exit: usize,
    events: Vec<Value>, // client-side trace: sent + received, in order
    // "hold" control: park exactly one thread at its nth arrival at a point; everybody else runs freely
    hold: Option<(String, String, usize)>,
    hold_seen: usize,
    hold_parked: bool,
    hold_released: bool,
    sync_kind: u64, // textDocumentSync announced by the server: 1 full (or unknown), 2 incremental
}

struct Shared {
    m: Mutex<Ctl>,
    cv: Condvar,
}

fn who_of(c: &mut Ctl, name: &str, id: u64) -> String {
    if name.starts_with("main.") {
        if name == "main.spawn" {
            let n = c.task_idx.len() + 1;
            c.task_idx.entry(id).or_insert(n);
        }
        "main".to_string()
    } else {
        let n = c.task_idx.len() + 1;
        let i = *c.task_idx.entry(id).or_insert(n);
        format!("task{}", i)
    }
}

fn install_hooks(sh: Arc<Shared>) {
    let cb: Arc<lsp::verif::Callback> = Arc::new(move |name: &'static str, id: u64| {
        let mut c = sh.m.lock().unwrap();
        let who = who_of(&mut c, name, id);
        let point = name.split('.').nth(1).unwrap_or(name).to_string();
        let tid = if name == "main.spawn" { c.task_idx[&id] as u64 } else { 0 };
        c.hooklog.push(json!([who, point, tid]));
        match name {
            "main.spawn" => c.spawned += 1,
            "task.end" => c.ended += 1,
            "main.notif_exit" => c.notif_exit += 1,
            _ => {}
        }
        if let Some((hw, hp, hn)) = c.hold.clone() {
            if hw == who && hp == point && !c.hold_released {
                c.hold_seen += 1;
                if c.hold_seen == hn {
                    c.hold_parked = true;
                    sh.cv.notify_all();
                    while !c.hold_released {
                        c = sh.cv.wait(c).unwrap();
                    }
                    c.hold_parked = false;
                }
            }
        }
        if c.control && !c.free_run {
            c.parked.insert(who.clone(), (point, id));
            sh.cv.notify_all();
            loop {
                if c.free_run {
                    break;
                }
                if let Some(g) = c.grants.get_mut(&who) {
                    if *g > 0 {
                        *g -= 1;
                        break;
                    }
                }
                c = sh.cv.wait(c).unwrap();
            }
            c.parked.remove(&who);
        }
        sh.cv.notify_all();
    });
    lsp::verif::set_callback(Some(cb));
}

fn frame(v: &Value) -> Vec<u8> {
    let body = serde_json::to_vec(v).unwrap();
    let mut out = format!("Content-Length: {}\r\n\r\n", body.len()).into_bytes();
    out.extend(body);
    out
}

async fn read_frame<R: tokio::io::AsyncRead + Unpin>(r: &mut R) -> Option<Value> {
    let mut header = Vec::new();
    let mut b = [0u8; 1];
    loop {
        match r.read(&mut b).await {
            Ok(1) => header.push(b[0]),
            _ => return None,
        }
        if header.ends_with(b"\r\n\r\n") {
            break;
        }
    }
    let h = String::from_utf8_lossy(&header);
    let len: usize = h
        .lines()
        .find_map(|l| l.strip_prefix("Content-Length: ").map(|x| x.trim().parse().unwrap_or(0)))
        .unwrap_or(0);
    let mut body = vec![0u8; len];
    if r.read_exact(&mut body).await.is_err() {
        return None;
    }
    match serde_json::from_slice(&body) {
        Ok(v) => Some(v),
        Err(e) => Some(json!({"method": "verif/unparsable", "params": {"error": e.to_string(), "body": String::from_utf8_lossy(&body)}})),
    }
}

fn full_client_capabilities() -> Value {
    json!({
        "workspace": {"applyEdit": true, "configuration": true, "workspaceFolders": true,
                      "didChangeWatchedFiles": {"dynamicRegistration": true}, "didChangeConfiguration": {"dynamicRegistration": true},
                      "inlayHint": {"refreshSupport": true}, "semanticTokens": {"refreshSupport": true}, "codeLens": {"refreshSupport": true},
                      "diagnostics": {"refreshSupport": true}, "inlineValue": {"refreshSupport": true},
                      "fileOperations": {"dynamicRegistration": true, "didCreate": true, "didRename": true, "didDelete": true}},
        "textDocument": {"synchronization": {"dynamicRegistration": true, "willSave": true, "didSave": true},
                         "publishDiagnostics": {"relatedInformation": true, "versionSupport": true, "codeDescriptionSupport": true, "dataSupport": true,
                                                "tagSupport": {"valueSet": [1, 2]}},
                         "completion": {"dynamicRegistration": true, "contextSupport": true, "completionItem": {"snippetSupport": true}},
                         "hover": {"dynamicRegistration": true, "contentFormat": ["markdown", "plaintext"]},
                         "definition": {"dynamicRegistration": true, "linkSupport": true}, "references": {"dynamicRegistration": true},
                         "documentSymbol": {"dynamicRegistration": true, "hierarchicalDocumentSymbolSupport": true},
                         "foldingRange": {"dynamicRegistration": true, "lineFoldingOnly": false}, "documentLink": {"dynamicRegistration": true, "tooltipSupport": true},
                         "inlayHint": {"dynamicRegistration": true, "resolveSupport": {"properties": ["tooltip", "label.location"]}},
                         "diagnostic": {"dynamicRegistration": true, "relatedDocumentSupport": false}},
        "window": {"workDoneProgress": true, "showMessage": {"messageActionItem": {"additionalPropertiesSupport": true}}, "showDocument": {"support": true}},
        "general": {"positionEncodings": ["utf-16"], "staleRequestSupport": {"cancel": true, "retryOnContentModified": []}}
    })
}

/// the document URI as the editor sends it; some editors percent-encode more characters than the url crate does ("+" as "%2B")
fn uri_of(dir: &str, file: &str) -> String {
    format!("file://{}/{}", dir, file).replace('+', "%2B")
}

/// What a received message says, in the abstract vocabulary (file names relative to the run dir).
fn project_incoming(dir: &str, msg: &Value, methods: &HashMap<u64, (String, String)>) -> Value {
    let rel = |uri: &str| -> String {
        let uri = uri.replace("%2B", "+");
        uri.strip_prefix(&format!("file://{}/", dir)).unwrap_or(&uri).to_string()
    };
    if msg.get("method").and_then(|m| m.as_str()) == Some("textDocument/publishDiagnostics") {
        let p = &msg["params"];
        let diags: Vec<Value> = jarr(p, "diagnostics")
            .iter()
            .map(|d| json!({"msg": d["message"], "range": d["range"]}))
            .collect();
        return json!({"ev": "Publish", "file": rel(jstr(p, "uri")), "version": p.get("version").cloned().unwrap_or(json!(-1)), "diags": diags});
    }
    if let Some(id) = msg.get("id").and_then(|i| i.as_u64()) {
        if msg.get("method").is_none() {
            let (method, file) = methods.get(&id).cloned().unwrap_or_default();
            let ok = msg.get("error").is_none();
            return json!({"ev": "Response", "id": id, "method": method, "file": file, "ok": ok,
                          "result": msg.get("result").cloned().unwrap_or(Value::Null),
                          "error": msg.get("error").cloned().unwrap_or(Value::Null)});
        }
    }
    json!({"ev": "Other", "raw": msg})
}

/// item: {id, dir, disk: {rel: text}, steps: [ {op: open|change|request|disk|gap|quiet, ...} ],
///        schedule: [[who, point], ...] (optional), quiet_ms}
pub fn session_item(item: &Value) -> Value {
    let id = item.get("id").cloned().unwrap_or(Value::Null);
    let top = jstr(item, "dir").to_string();
    let _ = std::fs::remove_dir_all(&top);
    std::fs::create_dir_all(&top).expect("mkdir run dir");
    // configuration: the editor may know the workspace through a symbolic link
    let dir = if item.get("symlink").and_then(|x| x.as_bool()).unwrap_or(false) {
        std::fs::create_dir_all(format!("{}/real", top)).expect("mkdir real");
        std::os::unix::fs::symlink(format!("{}/real", top), format!("{}/ws", top)).expect("symlink");
        format!("{}/ws", top)
    } else {
        top.clone()
    };
    if let Some(d) = item.get("disk").and_then(|d| d.as_object()) {
        for (rel, t) in d {
            let p = PathBuf::from(&dir).join(rel);
            if let Some(par) = p.parent() {
                let _ = std::fs::create_dir_all(par);
            }
            std::fs::write(p, t.as_str().unwrap_or("")).expect("write disk file");
        }
    }
    std::env::remove_var("INCLUDE_DIR");
    if let Some(inc) = item.get("include_dir").and_then(|x| x.as_str()) {
        std::env::set_var("INCLUDE_DIR", PathBuf::from(&dir).join(inc));
    }
    let schedule: Vec<(String, String)> = jarr(item, "schedule")
        .iter()
        .map(|s| (s[0].as_str().unwrap_or("").to_string(), s[1].as_str().unwrap_or("").to_string()))
        .collect();
    let hold: Option<(String, String, usize)> = item.get("hold").filter(|h| h.is_object()).map(|h| {
        (jstr(h, "who").to_string(), jstr(h, "point").to_string(), ju64(h, "nth").max(1) as usize)
    });
    let stall_ms = item.get("hold").and_then(|h| h.get("stall_ms")).and_then(|x| x.as_u64()).unwrap_or(300);
    let quiet_ms = item.get("quiet_ms").and_then(|x| x.as_u64()).unwrap_or(20000);
    let arrive_ms = item.get("arrive_ms").and_then(|x| x.as_u64()).unwrap_or(1500);
    let steps: Vec<Value> = jarr(item, "steps").to_vec();
    let client_full = jstr(item, "client") == "full";

    let sh = Arc::new(Shared { m: Mutex::new(Ctl::default()), cv: Condvar::new() });
    install_hooks(sh.clone());

    let rt = tokio::runtime::Builder::new_multi_thread().worker_threads(4).enable_all().build().expect("runtime");
    let (client_side, server_side) = tokio::io::duplex(1 << 22);
    let (srv_r, srv_w) = tokio::io::split(server_side);
    let (mut cli_r, cli_w0) = tokio::io::split(client_side);
    let cli_w = Arc::new(tokio::sync::Mutex::new(cli_w0));

    let sh_srv = sh.clone();
    let server = rt.spawn(async move {
        let (mainloop, _) = async_lsp::MainLoop::new_server(|client| {
            ServiceBuilder::new()
                .layer(LifecycleLayer::default())
                // mirrors crates/lsp/src/main.rs (the binary itself is exercised by the stdio bursts of C08)
                .layer(ConcurrencyLayer::new(std::num::NonZeroUsize::new(4096).unwrap()))
                .service(lsp::server::Server::new_router(client))
        });
        let res = mainloop.run_buffered(srv_r.compat(), srv_w.compat_write()).await;
        if let Err(e) = res {
            sh_srv.m.lock().unwrap().events.push(json!({"ev": "MainLoopEnded", "error": format!("{e:?}")}));
        }
    });

    // reader: every incoming frame is projected and appended to the event log
    let methods: Arc<Mutex<HashMap<u64, (String, String)>>> = Arc::new(Mutex::new(HashMap::new()));
    let sh_r = sh.clone();
    let methods_r = methods.clone();
    let dir_r = dir.clone();
    let pending: Arc<Mutex<usize>> = Arc::new(Mutex::new(0));
    let pending_r = pending.clone();
    let synced: Arc<Mutex<std::collections::HashSet<u64>>> = Arc::new(Mutex::new(Default::default()));
    let synced_r = synced.clone();
    let cli_w_r = cli_w.clone();
    let reader = rt.spawn(async move {
        while let Some(msg) = read_frame(&mut cli_r).await {
            if msg.get("id").is_some() && msg.get("method").is_some() {
                // a request of the server to the client (refresh, configuration, ...): a well-behaved client answers at once
                let reply = json!({"jsonrpc": "2.0", "id": msg["id"].clone(), "result": Value::Null});
                let mut w = cli_w_r.lock().await;
                let _ = w.write_all(&frame(&reply)).await;
                let _ = w.flush().await;
                drop(w);
                sh_r.m.lock().unwrap().events.push(json!({"ev": "ServerRequest", "method": msg["method"].clone()}));
                continue;
            }
            if let Some(idv) = msg.get("id").and_then(|i| i.as_u64()) {
                if idv >= 900_000 && msg.get("method").is_none() {
                    // response to a verif/sync barrier request: not part of the observed trace
                    synced_r.lock().unwrap().insert(idv);
                    sh_r.cv.notify_all();
                    continue;
                }
            }
            let ev = project_incoming(&dir_r, &msg, &methods_r.lock().unwrap());
            // log first, count afterwards: "Quiet" must never be logged before the response that made it true
            let is_resp = ev["ev"] == "Response" && ev["method"] != "initialize";
            if ev["ev"] == "Response" && ev["method"] == "initialize" {
                let sync = &msg["result"]["capabilities"]["textDocumentSync"];
                let kind = sync.as_u64().or_else(|| sync.get("change").and_then(|c| c.as_u64())).unwrap_or(1);
                let mut c = sh_r.m.lock().unwrap();
                c.sync_kind = kind;
                c.events.push(json!({"ev": "Initialized"}));
            } else {
                sh_r.m.lock().unwrap().events.push(ev);
            }
            if is_resp {
                let mut p = pending_r.lock().unwrap();
                if *p > 0 {
                    *p -= 1;
                }
            }
            sh_r.cv.notify_all();
        }
        sh_r.m.lock().unwrap().events.push(json!({"ev": "ReaderStopped"}));
    });

    let mut outcome = "Ok".to_string();
    // handshake (not under control)
    methods.lock().unwrap().insert(0, ("initialize".into(), "".into()));
    rt.block_on(async {
        // client "full": the capabilities an editor such as VS Code announces; otherwise none at all
        let caps = if client_full { full_client_capabilities() } else { json!({}) };
        let init = json!({"jsonrpc": "2.0", "id": 0, "method": "initialize", "params": {"capabilities": caps}});
        let mut w = cli_w.lock().await;
        w.write_all(&frame(&init)).await.unwrap();
        w.flush().await.unwrap();
    });
    let t0 = Instant::now();
    loop {
        if sh.m.lock().unwrap().events.iter().any(|e| e["ev"] == "Initialized") {
            break;
        }
        if t0.elapsed() > Duration::from_secs(10) {
            outcome = "NoInitialize".into();
            break;
        }
        std::thread::sleep(Duration::from_millis(2));
    }
    rt.block_on(async {
        let n = json!({"jsonrpc": "2.0", "method": "initialized", "params": {}});
        let mut w = cli_w.lock().await;
        w.write_all(&frame(&n)).await.unwrap();
        w.flush().await.unwrap();
    });
    {
        let mut c = sh.m.lock().unwrap();
        c.events.clear();
        c.control = !schedule.is_empty();
        c.hold = hold.clone();
    }

    let mut next_req: u64 = 1;
    let mut sent_notifs = 0usize;
    let sync_no = std::cell::Cell::new(900_000u64);
    let wait_quiet = |sent_notifs: usize, limit: Duration| -> bool {
        let t0 = Instant::now();
        loop {
            let idle = {
                let c = sh.m.lock().unwrap();
                c.notif_exit >= sent_notifs && c.spawned == c.ended && *pending.lock().unwrap() == 0
            };
            if idle {
                // barrier: everything the tasks sent before they ended is ahead of this response in the pipe
                let sid = sync_no.get();
                sync_no.set(sid + 1);
                let msg = json!({"jsonrpc": "2.0", "id": sid, "method": "verif/sync", "params": {}});
                rt.block_on(async {
                    let mut w = cli_w.lock().await;
                    let _ = w.write_all(&frame(&msg)).await;
                    let _ = w.flush().await;
                });
                let t1 = Instant::now();
                while !synced.lock().unwrap().contains(&sid) {
                    if t1.elapsed() > Duration::from_secs(5) || t0.elapsed() > limit {
                        return false;
                    }
                    std::thread::sleep(Duration::from_millis(1));
                }
                return true;
            }
            if t0.elapsed() > limit {
                return false;
            }
            std::thread::sleep(Duration::from_millis(3));
        }
    };
    let controlled = !schedule.is_empty();
    let mut sched_pos = 0usize;
    let mut diverged: Option<Value> = None;
    let mut doc_text: HashMap<String, String> = HashMap::new();     // what the editor holds for each open document
    for st in &steps {
        let op = jstr(st, "op");
        match op {
            "open" | "change" | "reopen" => {
                let file = jstr(st, "file");
                let text = jstr(st, "text");
                let v = ju64(st, "v");
                if op == "reopen" {
                    // the editor closes the document and opens it again (same text): didClose, then didOpen
                    let close = json!({"jsonrpc": "2.0", "method": "textDocument/didClose", "params": {"textDocument": {"uri": uri_of(&dir, file)}}});
                    rt.block_on(async {
                        let mut w = cli_w.lock().await;
                        w.write_all(&frame(&close)).await.unwrap();
                        w.flush().await.unwrap();
                    });
                }
                let msg = if op != "change" {
                    json!({"jsonrpc": "2.0", "method": "textDocument/didOpen", "params": {"textDocument":
                        {"uri": uri_of(&dir, file), "languageId": "tablegen", "version": v, "text": text}}})
                } else if sh.m.lock().unwrap().sync_kind == 2 && doc_text.contains_key(file) {
                    // the server asked for incremental sync: the same edit as two ranged changes of one notification, each relative
                    // to the text after the previous one (insert two line breaks on top, then replace everything by the new text)
                    let old = format!("\n\n{}", doc_text[file]);
                    let mut line = 0u64;
                    let mut last = 0usize;
                    let ob = old.as_bytes();
                    let mut i = 0usize;
                    while i < ob.len() {
                        if ob[i] == b'\n' || (ob[i] == b'\r' && !(i + 1 < ob.len() && ob[i + 1] == b'\n')) {
                            line += 1;
                            last = i + 1;
                        }
                        i += 1;
                    }
                    let col = old[last..].encode_utf16().count() as u64;
                    json!({"jsonrpc": "2.0", "method": "textDocument/didChange", "params": {"textDocument":
                        {"uri": uri_of(&dir, file), "version": v}, "contentChanges": [
                            {"range": {"start": {"line": 0, "character": 0}, "end": {"line": 0, "character": 0}}, "text": "\n\n"},
                            {"range": {"start": {"line": 0, "character": 0}, "end": {"line": line, "character": col}}, "text": text}]}})
                } else {
                    json!({"jsonrpc": "2.0", "method": "textDocument/didChange", "params": {"textDocument":
                        {"uri": uri_of(&dir, file), "version": v}, "contentChanges": [{"text": text}]}})
                };
                doc_text.insert(file.to_string(), text.to_string());
                sh.m.lock().unwrap().events.push(json!({"ev": if op != "change" {"Open"} else {"Change"}, "file": file, "v": v}));
                rt.block_on(async {
                    let mut w = cli_w.lock().await;
                    w.write_all(&frame(&msg)).await.unwrap();
                    w.flush().await.unwrap();
                });
                sent_notifs += 1;
            }
            "save" => {
                // textDocument/didSave: no hooks fire, nothing is expected to change
                let file = jstr(st, "file");
                let msg = json!({"jsonrpc": "2.0", "method": "textDocument/didSave", "params": {"textDocument": {"uri": uri_of(&dir, file)}}});
                rt.block_on(async {
                    let mut w = cli_w.lock().await;
                    w.write_all(&frame(&msg)).await.unwrap();
                    w.flush().await.unwrap();
                });
            }
            "close" => {
                // textDocument/didClose on its own: no hooks fire, the buffer stays (later requests are answered from it)
                let file = jstr(st, "file");
                let msg = json!({"jsonrpc": "2.0", "method": "textDocument/didClose", "params": {"textDocument": {"uri": uri_of(&dir, file)}}});
                rt.block_on(async {
                    let mut w = cli_w.lock().await;
                    w.write_all(&frame(&msg)).await.unwrap();
                    w.flush().await.unwrap();
                });
            }
            "request" => {
                let rid = next_req;
                next_req += 1;
                let method = jstr(st, "method").to_string();
                let file = jstr(st, "file").to_string();
                let mut params = st.get("params").cloned().unwrap_or(json!({}));
                params["textDocument"] = json!({"uri": uri_of(&dir, &file)});
                methods.lock().unwrap().insert(rid, (method.clone(), file.clone()));
                *pending.lock().unwrap() += 1;
                sh.m.lock().unwrap().events.push(json!({"ev": "Request", "id": rid, "method": method, "file": file,
                                                         "tag": st.get("tag").cloned().unwrap_or(Value::Null)}));
                let msg = json!({"jsonrpc": "2.0", "id": rid, "method": method, "params": params});
                rt.block_on(async {
                    let mut w = cli_w.lock().await;
                    w.write_all(&frame(&msg)).await.unwrap();
                    w.flush().await.unwrap();
                });
            }
            "disk" => {
                let p = PathBuf::from(&dir).join(jstr(st, "file"));
                match st.get("text").and_then(|t| t.as_str()) {
                    Some(t) => std::fs::write(p, t).unwrap(),
                    None => {
                        let _ = std::fs::remove_file(p);
                    }
                }
            }
            "gap" => std::thread::sleep(Duration::from_millis(ju64(st, "ms"))),
            "quiet" => {
                if controlled || hold.is_some() {
                    continue; // ordering is the schedule's business
                }
                let okq = wait_quiet(sent_notifs, Duration::from_millis(quiet_ms));
                sh.m.lock().unwrap().events.push(json!({"ev": if okq {"Quiet"} else {"NoQuiescence"}}));
                if !okq {
                    outcome = "NoQuiescence".into();
                    break;
                }
            }
            _ => {}
        }
    }
    if controlled {
        // follow the schedule: wait for the named thread to arrive at the named point, then grant it
        while sched_pos < schedule.len() {
            let (who, point) = &schedule[sched_pos];
            let t0 = Instant::now();
            let mut c = sh.m.lock().unwrap();
            let arrived = loop {
                if let Some((p, _)) = c.parked.get(who) {
                    break p == point;
                }
                let left = Duration::from_millis(arrive_ms).saturating_sub(t0.elapsed());
                if left.is_zero() {
                    break false;
                }
                let (c2, _) = sh.cv.wait_timeout(c, left.min(Duration::from_millis(20))).unwrap();
                c = c2;
            };
            if !arrived {
                let parked: Vec<Value> = c.parked.iter().map(|(w, (p, _))| json!([w, p])).collect();
                diverged = Some(json!({"at": sched_pos, "expected": [who, point], "parked": parked}));
                break;
            }
            *c.grants.entry(who.clone()).or_insert(0) += 1;
            sh.cv.notify_all();
            // wait until the grant was consumed (the thread left the hook)
            let t1 = Instant::now();
            while c.grants.get(who).copied().unwrap_or(0) > 0 && t1.elapsed() < Duration::from_secs(2) {
                let (c2, _) = sh.cv.wait_timeout(c, Duration::from_millis(10)).unwrap();
                c = c2;
            }
            drop(c);
            sched_pos += 1;
        }
        {
            let mut c = sh.m.lock().unwrap();
            c.free_run = true;
            sh.cv.notify_all();
        }
        // the verdict never depends on a presumed block: after all threads were released the server must
        // become quiescent within the (generous) limit
        let okq = wait_quiet(sent_notifs, Duration::from_millis(quiet_ms));
        sh.m.lock().unwrap().events.push(json!({"ev": if okq {"Quiet"} else {"NoQuiescence"}}));
        if !okq {
            outcome = "NoQuiescence".into();
        }
    }
    let mut hold_reached = false;
    if hold.is_some() && !controlled {
        // wait for the target to park (it may never get there: then the run is an ordinary burst)
        let t0 = Instant::now();
        loop {
            if sh.m.lock().unwrap().hold_parked {
                hold_reached = true;
                break;
            }
            if t0.elapsed() > Duration::from_millis(arrive_ms) {
                break;
            }
            std::thread::sleep(Duration::from_millis(2));
        }
        if hold_reached {
            // let everybody else run until nobody moves any more (done, or stuck on something the held thread owns)
            let mut last = sh.m.lock().unwrap().hooklog.len();
            let mut since = Instant::now();
            let t1 = Instant::now();
            loop {
                std::thread::sleep(Duration::from_millis(10));
                let n = sh.m.lock().unwrap().hooklog.len();
                if n != last {
                    last = n;
                    since = Instant::now();
                }
                if since.elapsed() > Duration::from_millis(stall_ms) || t1.elapsed() > Duration::from_secs(10) {
                    break;
                }
            }
            sh.m.lock().unwrap().events.push(json!({"ev": "HoldReleased"}));
        }
        {
            let mut c = sh.m.lock().unwrap();
            c.hold_released = true;
            sh.cv.notify_all();
        }
        let okq = wait_quiet(sent_notifs, Duration::from_millis(quiet_ms));
        sh.m.lock().unwrap().events.push(json!({"ev": if okq {"Quiet"} else {"NoQuiescence"}}));
        if !okq {
            outcome = "NoQuiescence".into();
        }
    }
    let (events, hooklog, counters) = {
        let mut c = sh.m.lock().unwrap();
        c.free_run = true;
        c.hold_released = true;
        sh.cv.notify_all();
        (c.events.clone(), c.hooklog.clone(), json!({"spawned": c.spawned, "ended": c.ended, "notif_exit": c.notif_exit, "sent_notifs": sent_notifs}))
    };
    lsp::verif::set_callback(None);
    server.abort();
    reader.abort();
    rt.shutdown_timeout(Duration::from_millis(200));
    if item.get("keep_dir").is_none() {
        let _ = std::fs::remove_dir_all(&top);
    }
    json!({"id": id, "outcome": outcome, "events": events, "hooks": hooklog, "counters": counters,
           "schedule_len": schedule.len(), "schedule_done": sched_pos, "diverged": diverged, "hold_reached": hold_reached})
}
