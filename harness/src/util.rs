//! Small helpers: deterministic RNG, JSON accessors, panic capture.

use serde_json::Value;
use std::panic::{catch_unwind, AssertUnwindSafe};

/// splitmix64 — all random choices of the harness derive from VERIF_SEED through this.
#[derive(Clone)]
pub struct Rng(pub u64);

impl Rng {
    pub fn new(seed: u64) -> Self {
        Rng(seed.wrapping_mul(0x9E3779B97F4A7C15) ^ 0xD1B54A32D192ED03)
    }
    pub fn next(&mut self) -> u64 {
        self.0 = self.0.wrapping_add(0x9E3779B97F4A7C15);
        let mut z = self.0;
        z = (z ^ (z >> 30)).wrapping_mul(0xBF58476D1CE4E5B9);
        z = (z ^ (z >> 27)).wrapping_mul(0x94D049BB133111EB);
        z ^ (z >> 31)
    }
    pub fn below(&mut self, n: usize) -> usize {
        if n == 0 {
            0
        } else {
            (self.next() % n as u64) as usize
        }
    }
    pub fn chance(&mut self, num: u64, den: u64) -> bool {
        self.next() % den < num
    }
    pub fn pick<'a, T>(&mut self, xs: &'a [T]) -> &'a T {
        &xs[self.below(xs.len())]
    }
}

pub fn fnv(s: &str) -> u64 {
    let mut h: u64 = 0xcbf29ce484222325;
    for b in s.as_bytes() {
        h ^= *b as u64;
        h = h.wrapping_mul(0x100000001b3);
    }
    h
}

pub fn jstr<'a>(v: &'a Value, k: &str) -> &'a str {
    v.get(k).and_then(|x| x.as_str()).unwrap_or("")
}
pub fn ju64(v: &Value, k: &str) -> u64 {
    v.get(k).and_then(|x| x.as_u64()).unwrap_or(0)
}
pub fn jarr<'a>(v: &'a Value, k: &str) -> &'a [Value] {
    v.get(k)
        .and_then(|x| x.as_array())
        .map(|a| a.as_slice())
        .unwrap_or(&[])
}

/// Runs `f` on a fresh thread with the given stack size, capturing a panic as Err(message).
/// A stack overflow still kills the process (SIGABRT): callers isolate items in worker children.
pub fn on_thread<T: Send + 'static>(
    stack: usize,
    f: impl FnOnce() -> T + Send + 'static,
) -> Result<T, String> {
    let h = std::thread::Builder::new()
        .stack_size(stack)
        .spawn(move || catch_unwind(AssertUnwindSafe(f)))
        .expect("spawn");
    match h.join() {
        Ok(Ok(v)) => Ok(v),
        Ok(Err(e)) => Err(panic_msg(e)),
        Err(e) => Err(panic_msg(e)),
    }
}

pub fn guarded<T>(f: impl FnOnce() -> T) -> Result<T, String> {
    catch_unwind(AssertUnwindSafe(f)).map_err(panic_msg)
}

pub fn panic_msg(e: Box<dyn std::any::Any + Send>) -> String {
    if let Some(s) = e.downcast_ref::<&str>() {
        s.to_string()
    } else if let Some(s) = e.downcast_ref::<String>() {
        s.clone()
    } else {
        "panic".to_string()
    }
}

pub fn quiet_panics() {
    if std::env::var("VERIF_PANIC_VERBOSE").is_ok() {
        return;
    }
    std::panic::set_hook(Box::new(|_| {}));
}

pub const PARSE_STACK: usize = 8 << 20;
pub const ANALYSIS_STACK: usize = 2 << 20;
