//! tgverif — the conformance harness binding the TLA+ specifications in /verif/spec to the real
//! tablegen-lsp code. It renders abstract behaviours, runs the real code, and projects results
//! back to the abstract vocabulary. It contains no oracle of its own.

mod ast_walk_gen;
mod hist_obs;
mod ide_query;
mod memfs;
mod parse_obs;
mod pool;
mod pos_obs;
mod pp_obs;
mod srv;
mod tree_obs;
mod util;
mod vocab_obs;
mod ws_obs;

use std::io::{BufRead, Write};

use serde_json::{json, Value};

fn handle(item: &Value) -> Value {
    match util::jstr(item, "kind") {
        "parse" => parse_obs::parse_item(item),
        "lex" => parse_obs::lex_item(item),
        "tree" => tree_obs::tree_item(item),
        "analysis" => ws_obs::analysis_item(item),
        "session" => srv::session_item(item),
        "pos" => pos_obs::pos_item(item),
        "pp" => pp_obs::pp_item(item),
        "wshist" => hist_obs::hist_item(item),
        "vocab" => vocab_obs::vocab_item(item),
        "idequery" => ide_query::idequery_item(item),
        other => json!({"id": item.get("id"), "outcome": "ToolError", "msg": format!("unknown kind {other}")}),
    }
}

fn worker() {
    util::quiet_panics();
    let stdin = std::io::stdin();
    let stdout = std::io::stdout();
    for line in stdin.lock().lines() {
        let Ok(line) = line else { break };
        if line.trim().is_empty() {
            continue;
        }
        let out = match serde_json::from_str::<Value>(&line) {
            Ok(item) => handle(&item),
            Err(e) => json!({"outcome": "ToolError", "msg": format!("bad item: {e}")}),
        };
        let mut o = stdout.lock();
        let _ = writeln!(o, "{}", out);
        let _ = o.flush();
    }
}

fn arg_val(args: &[String], name: &str) -> Option<String> {
    args.iter().position(|a| a == name).and_then(|i| args.get(i + 1).cloned())
}

fn run(args: &[String]) {
    let inp = arg_val(args, "--in").expect("--in");
    let out = arg_val(args, "--out").expect("--out");
    let jobs: usize = arg_val(args, "--jobs").and_then(|s| s.parse().ok()).unwrap_or(8);
    let timeout: u64 = arg_val(args, "--timeout-ms").and_then(|s| s.parse().ok()).unwrap_or(10_000);
    let f = std::fs::File::open(&inp).expect("open input");
    let items: Vec<String> = std::io::BufReader::new(f)
        .lines()
        .map_while(Result::ok)
        .filter(|l| !l.trim().is_empty())
        .collect();
    let res = pool::run_items(items, jobs, timeout, vec![]);
    let mut o = std::io::BufWriter::new(std::fs::File::create(&out).expect("create output"));
    for r in res {
        writeln!(o, "{}", r).unwrap();
    }
}

fn main() {
    let args: Vec<String> = std::env::args().collect();
    match args.get(1).map(|s| s.as_str()) {
        Some("worker") => worker(),
        Some("run") => run(&args[2..]),
        Some("one") => {
            // one item from stdin, in-process (used by --replay)
            util::quiet_panics();
            let mut s = String::new();
            std::io::stdin().lock().read_line(&mut s).unwrap();
            let item: Value = serde_json::from_str(&s).expect("item");
            println!("{}", serde_json::to_string_pretty(&handle(&item)).unwrap());
        }
        _ => {
            eprintln!("usage: tgverif worker | run --in F --out F [--jobs N] [--timeout-ms T] | one");
            std::process::exit(2);
        }
    }
}
