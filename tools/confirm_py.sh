#!/bin/sh
# usage: confirm_py.sh <Cxx> <a|b>    demo = demo.py driving target/debug/lsp
C=$1; M=$2; W=${MUTROOT:-/tmp/mut}/$C; O=$W/out/$M
cd $W || exit 2
git checkout -q -- . ; git clean -fdq crates
git apply $O/patch.diff || { echo "APPLY-FAIL"; exit 2; }
T=$(cargo test --workspace --offline 2>&1 | grep -E "^test result" | awk '{p+=$4; f+=$6} END {print p" passed "f" failed"}')
cargo build --offline -q 2>/dev/null
DEMO_TIMEOUT=15 C08_TIMEOUT=10 timeout 600 python3 $O/demo.py target/debug/lsp > $O/with.log 2>&1; R1=$?
git apply -R $O/patch.diff; cargo build --offline -q 2>/dev/null
DEMO_TIMEOUT=15 C08_TIMEOUT=10 timeout 600 python3 $O/demo.py target/debug/lsp > $O/without.log 2>&1; R2=$?
git checkout -q -- . ; git clean -fdq crates
echo "== $C-$M suite with change: $T; demo exit with change: $R1; without: $R2"
