#!/usr/bin/env python3
"""Spec audit for Types.tla against llvm-tblgen-14 (where installed): prints the statements on which both disagree."""
import sys, json
sys.path.insert(0, '/verif/lib')
import common, p_types
wd = common.workdir("C13-audit")
u, r = p_types.universe(wd)
res = p_types.tblgen_audit(u, wd, "thorough", 1, limit=int(sys.argv[1]) if len(sys.argv) > 1 else None)
print(json.dumps(res, indent=1))
