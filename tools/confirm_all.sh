#!/bin/sh
# confirms every rust-demo mutant in its own scratch worktree, in parallel per property
conf() { c=$1; cr=$2; for m in a b; do echo "== $c-$m"; /verif/tools/confirm_mutant.sh $c $m $cr 2>&1 | tail -3; done > /tmp/mut/$c/out/confirm.log 2>&1; }
conf C03 ide & conf C04 syntax & conf C05 ide & conf C06 ide & conf C10 lsp & conf C13 ide & conf C14 syntax &
wait
conf C15 syntax & conf C16 ide & conf C17 ide & conf C18 ide & conf C19 ide & conf C20 ide &
wait
cat /tmp/mut/C*/out/confirm.log
