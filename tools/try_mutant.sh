#!/bin/sh
# usage: tools/try_mutant.sh <patch.diff> <Cxx> [tier]   -- applies the patch to /repo, runs the check, reverts
# (the evidence file and the replay directory of the unchanged tree are preserved)
P=$1; C=$2; T=${3:-quick}
cd /repo || exit 2
git diff --quiet || { echo "/repo working tree is dirty"; exit 2; }
git apply "$P" || { echo "patch does not apply"; exit 2; }
cp /verif/evidence/$C.json /verif/work/evidence-$C.keep 2>/dev/null
cd /verif && ./check $C --tier $T > /verif/work/mut-$C.out 2> /verif/work/mut-$C.err; RC=$?
cp /verif/work/evidence-$C.keep /verif/evidence/$C.json 2>/dev/null
cd /repo && git checkout -- . && git clean -fdq crates
echo "exit=$RC"; grep -E "^(VIOLATION|KNOWN-FINDING)" /verif/work/mut-$C.out | head -5; grep -E "fingerprint|TOOL-ERROR" /verif/work/mut-$C.err | sort | uniq -c | head -8
