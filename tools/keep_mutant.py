#!/usr/bin/env python3
"""usage: tools/keep_mutant.py <Cxx> <a|b> <crate|-> <needs...>  -- copies a confirmed seeded change into /verif/seeded/<Cxx>-<m>/"""
import json, os, shutil, sys
c, m, crate = sys.argv[1:4]
needs = " ".join(sys.argv[4:])
src = "/tmp/mut/%s/out/%s" % (c, m)
dst = "/verif/seeded/%s-%s" % (c, m)
os.makedirs(dst, exist_ok=True)
for f in os.listdir(src):
    shutil.copy(os.path.join(src, f), os.path.join(dst, f))
meta = {"property": c, "origin": "independent sub-agent given only the property text and a scratch worktree",
        "needs_to_manifest": needs, "demo": "demo_test.rs -> crates/%s/tests/" % crate if crate != "-" else "see README.md",
        "confirmed": "tools/confirm_mutant.sh: 90/90 existing tests pass with the change; demo fails with it and passes without it",
        "caught_by": []}
json.dump(meta, open(os.path.join(dst, "meta.json"), "w"), indent=1)
print(dst)
