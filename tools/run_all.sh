#!/bin/sh
# runs every claimed check (quick by default) on the current tree and summarises
T=${1:-quick}
cd /verif
for c in $(python3 -c "import json; print(' '.join(x['property_id'] for x in json.load(open('MANIFEST.json'))['checks']))"); do
  S=$(date +%s); ./check $c --tier $T > work/all-$c.out 2> work/all-$c.err; RC=$?; E=$(( $(date +%s) - S ))
  echo "$c exit=$RC ${E}s $(grep -cE '^VIOLATION' work/all-$c.out) violations $(grep -cE '^KNOWN' work/all-$c.out) known"
done
