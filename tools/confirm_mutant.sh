#!/bin/sh
# usage: tools/confirm_mutant.sh <Cxx> <a|b> <crate>     (demo = demo_test.rs integration test)
# confirms in the agent's scratch worktree: tests pass with the change, demo fails with it, passes without
C=$1; M=$2; CR=$3; W=${MUTROOT:-/tmp/mut}/$C; O=$W/out/$M
cd $W || exit 2
git checkout -q -- . ; git clean -fdq crates
git apply $O/patch.diff || { echo "APPLY-FAIL"; exit 2; }
T=$(cargo test --workspace --offline 2>&1 | grep -E "^test result" | awk '{p+=$4; f+=$6} END {print p" passed "f" failed"}')
echo "suite with change: $T"
mkdir -p crates/$CR/tests; cp $O/demo_test.rs crates/$CR/tests/demo_test.rs
D1=$(cargo test -p $CR --offline --test demo_test 2>&1 | grep -E "^test result" | tail -1)
echo "demo with change: $D1"
git apply -R $O/patch.diff
D2=$(cargo test -p $CR --offline --test demo_test 2>&1 | grep -E "^test result" | tail -1)
echo "demo without change: $D2"
rm -f crates/$CR/tests/demo_test.rs; rmdir crates/$CR/tests 2>/dev/null
git checkout -q -- . ; git clean -fdq crates
