#!/usr/bin/env python3
"""Counts diagnostics per normalised message over the corpus roots (used to judge whether a fix adds false positives)."""
import sys, os, re, json, collections
sys.path.insert(0, '/verif/lib')
import common, gen
common.build_harness()
files = sorted(os.path.join(common.CORPUS, n) for n, _t in gen.corpus_files())
items = [{"id": i, "kind": "idequery", "files_dir": common.CORPUS, "root": p, "include_dir": common.CORPUS,
          "queries": [{"m": "diagnostics", "path": q} for q in files]} for i, p in enumerate(files)]
recs, _ = common.run_harness(items, common.workdir("corpus-diags"), "cd", timeout_ms=120000)
c = collections.Counter()
for r in recs:
    for a in r.get("answers") or []:
        for d in a or []:
            c[re.sub(r"'[^']*'", "'_'", d[3])[:140]] += 1
flt = sys.argv[1] if len(sys.argv) > 1 else None
for m, n in (c.most_common(40) if not flt else [x for x in c.most_common() if re.search(flt, x[0])]):
    print(n, m)
print("total", sum(c.values()))
